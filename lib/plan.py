"""Per-property plans (modes, run counts, budgets, probes) and the evidence writer."""
import collections

DEFAULT_SEED = {"quick": "20261002", "thorough": "777"}

REAL_E = [
    "keto internal/check (Engine, rewrites, binop) and internal/check/checkgroup (concurrent checkgroup) - real goroutines, scheduled at storage-call granularity",
    "keto internal/x/graph (visited set), internal/namespace, internal/driver/config (config provider, namespace managers), internal/schema (OPL parser, for OPL-encoded configs)",
    "keto internal/relationtuple.Mapper, internal/persistence/sql (Persister, Traverser), ory/x popx + sqlcon, ory pop fork, sqlx, database/sql, go-sqlite3 / SQLite (shared-cache in-memory database)",
]
STUB_E = [
    "transport (TCP, cmux, TLS, HTTP/2): not run in this tier",
    "PostgreSQL / MySQL / CockroachDB dialect paths: not available offline, only the sqlite dialect runs",
    "uuid.DefaultGenerator (crypto/rand V4) replaced by the seeded generator that decides shard_id order",
    "Go runtime goroutine choice between two storage calls: real runtime, GOMAXPROCS=1, GC and async preemption off inside a run",
]

PROPS = {}


def mode_spec(spec, name):
    for m in spec["modes"]:
        if m["name"] == name:
            return m
    return {}


PROPS["C01"] = {
    "level": "exploration",
    "budget_s": {"quick": 80, "thorough": 2400},
    "modes": [{"name": "", "runs": {"quick": 16000, "thorough": 400000}, "chunk": 500}],
    "rule": ("one run = one generated case (1-3 namespaces; relations with declared types; permissions of depth<=3 over includes/permits/traverse/!/&&/||; "
             "config installed as no-relation namespaces, Go AST or OPL text through the real parser; 0-25 tuples with subject sets, duplicates, expansion cycles; default or strict mode; one query) "
             "executed under 4 (quick) / 16 (thorough) tape-chosen release orders of the parked storage calls, a fresh storage order (shard ids) every second execution, every fourth execution as a BatchCheck of the duplicated query. "
             "Oracle: R1 stratified Zanzibar evaluator; limits non-binding by R1's criterion (no reachable cycle through a rewrite edge; max_read_depth=1000 >= 10*|reachable|+10). "
             "A case is non-trivial when the reference derivation has >=1 subject-set hop or rewrite edge and the answer is not decided by a direct tuple on the query node; distinct = distinct hash of (config, tuples, query)."),
    "probes": ["probe_same_object_name_in_two_namespaces", "probe_duplicates_below_intersection", "probe_relationships_of_a_removed_namespace", "unwrapped_engine_checks", "probe_two_hops", "probe_concurrent_parked", "probe_traverse_listing", "strict_cases", "enc_opl", "enc_ast", "enc_none", "ref_allowed", "ref_denied"],
    "real": REAL_E, "stub": STUB_E,
    "fault_kinds": {},
    "assumptions": [
        "reference evaluator R1 (sim/ref.go) is the specification of 'Zanzibar semantics'; non-stratified cases (negation inside a cycle) are skipped and counted",
        "strict mode is compared on type-conforming stores only",
        "interleavings are explored at storage-call granularity; goroutines running between two quiescent points are ordered by the Go runtime",
        "only the sqlite dialect is exercised",
    ],
}


PROPS["C03"] = {
    "level": "fault_enumeration",
    "budget_s": {"quick": 80, "thorough": 2400},
    "modes": [{"name": "engine", "runs": {"quick": 5000, "thorough": 120000}, "chunk": 250},
              {"name": "batch", "runs": {"quick": 1500, "thorough": 40000}, "chunk": 250},
              {"name": "sql", "runs": {"quick": 2500, "thorough": 60000}, "chunk": 250}],
    "rule": ("one run = one generated case as in C01 (limits non-binding, so that the fault-free answer is one value) executed fault-free under tape sigma (N storage calls, decision D), "
             "then re-executed under the same sigma with ONE fault at storage call k for every k<=N (N<=12 quick / 40 thorough; otherwise a tape-chosen sample of that many positions) x kinds {transient, persistent, ctx}. "
             "mode engine: CheckRelationTuple; mode batch: BatchCheck of the duplicated query (every entry checked); mode sql: the fault is injected at the k-th SQL STATEMENT of the check at the driver seam, below pop/popx/sqlcon and keto's persister (io / busy / badconn / ctx; a legally masked fault - database/sql retry, pop retry after a sleep on the simulated clock - passes). Oracle: result carries an error or equals D; never allowed when D=denied; an entry with an error never says allowed. "
             "non-trivial = fault-free run issues >=2 storage calls; distinct = distinct hash of (config, tuples, query). exhaustive over k per case when N<=limit, cases sampled."),
    "probes": ["fault_transient", "fault_persistent", "fault_ctx", "fault_conflict", "fault_sql_io", "fault_sql_busy", "fault_sql_badconn", "fault_sql_ctx", "faults_masked", "outcome_error", "outcome_same", "base_allowed", "base_denied", "probe_denied_with_negation", "cases_all_positions"],
    "real": REAL_E, "stub": STUB_E + ["storage failures: injected at the relationtuple.Manager / Traverser seam (L1); the SQL-driver seam (L2) variant is a separate mode"],
    "fault_kinds": {"sql-down": "mode sql: from the k-th SQL statement on every statement fails (the database is gone for the rest of the request)", "transient": "k-th storage call returns an error instead of calling through", "persistent": "k-th and every later call fail", "conflict": "k-th call fails with sqlcon.ErrConcurrentUpdate (retryable kind)", "ctx": "request context cancelled at the k-th call, which returns context.Canceled"},
    "assumptions": ["fault-free answer of the same schedule is the reference (property statement)", "limits non-binding by R1's criterion", "faults are fail-stop at the storage API"],
}

PROPS["C15"] = {
    "level": "fault_enumeration",
    "budget_s": {"quick": 80, "thorough": 1500},
    "modes": [{"name": "", "runs": {"quick": 6000, "thorough": 150000}, "chunk": 250}],
    "rule": ("one run = one generated case with recursion allowed (self/mutual recursive permissions through ||, && and !, expansion cycles, parent cycles under traverse, nodes wider than the width limit), "
             "max_read_depth 1..5, max_read_width in {1,2,3,5,100}; executed (a) fault-free, (b) with the request context cancelled before start and after the j-th storage call for every j<=N (N<=10 quick / 40 thorough, else sampled), "
             "(c) with a transient / persistent storage failure at every such k. Oracles: the call returns (nothing parked + live context + not returned = hang); storage calls <= ((f+1)(|rw|+2))^(d+1); "
             "after cancellation the call returns with no further storage call released and zero simulated time; after return + context release the bubble drains (synctest deadlock detection = goroutine leak, classified by blocked frame); worker process survives. "
             "non-trivial = reference derivation touches >=2 hops/rewrite edges; distinct = hash of (config, tuples, query, depth, width)."),
    "probes": ["fault_cancel", "fault_transient", "fault_persistent", "probe_rewrite_cycle", "probe_wider_than_limit", "probe_node_with_1000_plus_subject_sets", "probe_batch_entry_point", "probe_rest_entry_point", "probe_connection_pool_of_one", "probe_drained_after_return"],
    "real": REAL_E, "stub": STUB_E,
    "fault_kinds": {"cancel": "request context cancelled between two storage calls", "transient": "k-th storage call fails", "persistent": "k-th and all later storage calls fail", "conflict": "k-th storage call fails with sqlcon.ErrConcurrentUpdate (retryable kind)"},
    "assumptions": ["the bound B is deliberately loose: it catches unbounded growth, not constant factors", "when a result and the cancellation are ready in the same quiescence round, either outcome is accepted (Go's select is not seedable)"],
}


PROPS["C02"] = {
    "level": "exploration",
    "budget_s": {"quick": 110, "thorough": 2400},
    "modes": [{"name": "", "runs": {"quick": 3800, "thorough": 200000}, "chunk": 200},
              {"name": "positive", "runs": {"quick": 1200, "thorough": 60000}, "chunk": 200}],
    "rule": ("one run = one generated case (recursion allowed: self/mutual recursive permissions, expansion cycles, wide nodes; mode 'positive' without negation) with global max_read_depth g in 1..8, request max-depth r in -3..10, "
             "max_read_width w in {1,2,3,5,100}; 3 (quick) / 8 (thorough) tape-chosen schedules. Oracle 1: allowed under (r,g,w) => allowed by the unbounded reference R1 (non-stratified cases skipped and counted). "
             "Oracle 2: the same schedule tape against global depth eff(r,g) with request depth 0 gives the same decision and the same storage-call trace. "
             "non-trivial = a depth or width cut actually happened in the run (engine log probes); distinct = hash of (config, tuples, query, g, r, w)."),
    "probes": ["probe_depth_cut", "probe_depth_cut_with_negation", "probe_width_cut", "probe_fanout_below_negation", "probe_cut_turned_allowed_into_denied", "probe_request_depth_nonpositive", "probe_request_depth_above_global", "probe_request_depth_lowers", "probe_batch_entry_point", "pairs_equal", "allowed_under_limit"],
    "real": REAL_E, "stub": STUB_E,
    "fault_kinds": {},
    "assumptions": ["unbounded semantics = least fixed point of the stratified reference R1", "eff(r,g) as stated in the property"],
}


REAL_S = [
    "keto REST routers (ReadRouter/WriteRouter/OPLSyntaxRouter: negroni chain, httprouter, handlers, herodot writer) driven through ServeHTTP; gRPC servers (real interceptor chain incl. panic recovery) over grpc/test/bufconn",
    "keto internal/relationtuple (handlers, Mapper), internal/check, internal/expand, internal/persistence/sql (Persister, Traverser), popx transactions, sqlcon error mapping, ory pop fork, sqlx, database/sql, go-sqlite3 / SQLite",
]
STUB_S = [
    "TCP, cmux, TLS, HTTP/2 framing of REST, graceful shutdown: not run (REST requests are http.Request values handed to the real handler chain)",
    "PostgreSQL / MySQL / CockroachDB dialect paths: only the sqlite dialect is available offline",
    "uuid.DefaultGenerator replaced by the seeded generator (shard_id order)",
    "SQL driver wrapped by the L2 seam (statement log, fail-stop fault injection); faults are fail-stop, no torn pages / power loss",
]

PROPS["C04"] = {
    "level": "exploration",
    "budget_s": {"quick": 80, "thorough": 1500},
    "modes": [{"name": "", "runs": {"quick": 2500, "thorough": 60000}, "chunk": 100},
              {"name": "faults", "runs": {"quick": 1200, "thorough": 30000}, "chunk": 100},
              {"name": "bulk", "runs": {"quick": 160, "thorough": 4000}, "chunk": 10}],
    "rule": ("one run = one tape-generated history of 4-30 (quick) / 4-60 (thorough) API operations (REST create/patch/delete-by-query/list, gRPC transact/delete-by-query/list; all 2^4 query shapes; "
             "valid and invalid arguments: unknown namespaces, empty strings, missing subject, duplicates within a request, names reused as object and subject) against the real routers and gRPC servers; "
             "after EVERY op the response is checked against the multiset model R2, then a full listing and two tape-chosen query shapes are compared as multisets of exact strings, and a check and an expand are compared with R1/R4 on the model state. "
             "mode 'faults' additionally fails one SQL statement inside a third of the ops (io/busy/badconn/full/ctx, fail-stop): the op may fail, then the model does not move; it may never succeed with another effect. "
             "mode 'bulk': 101..2500 (quick) / ..10001 (thorough) relationships inserted in bulk, listed with page sizes 0 / 1000 / 5000 / n-1 / n / n+1 / 100000, deleted by query and in bulk, compared with the model after every step (sizes are spread around every boundary an implementation might batch at; none is copied from the code). "
             "non-trivial = history applied >=3 writes; distinct = hash of the whole history with responses."),
    "probes": ["writes_applied", "invalid_ops", "probe_multi_page_list", "probe_check_allowed", "probe_entry_with_both_subject_kinds", "probe_over_1000_rows", "probe_bulk_write_with_one_invalid_entry", "bulk_delete_by_query", "bulk_delete_explicit"],
    "real": REAL_S, "stub": STUB_S,
    "fault_kinds": {"io": "statement returns an I/O error", "busy": "'database is locked' (pop retries)", "badconn": "driver.ErrBadConn (database/sql retries outside a tx)", "full": "SQLITE_FULL", "ctx": "context.Canceled"},
    "assumptions": ["ops run to completion one at a time (conformance loop, not a concurrency test)", "model R2 (sim/sys.go) is the specification of the multiset store"],
}


PROPS["C17"] = {
    "level": "exploration",
    "budget_s": {"quick": 60, "thorough": 900},
    "modes": [{"name": "", "runs": {"quick": 2500, "thorough": 60000}, "chunk": 100},
              {"name": "fresh", "runs": {"quick": 400, "thorough": 12000}, "chunk": 25},
              {"name": "tenants", "runs": {"quick": 600, "thorough": 15000}, "chunk": 100}],
    "rule": ("one run = a stored state built by 0-12 tape-generated writes, then 5-25 read/syntax requests over all 15 read entry points (REST GET/POST check with and without status mirroring, gRPC check, REST and gRPC batch check, expand, list, namespaces, OPL syntax check), "
             "valid and malformed, with names the server has never seen, unknown namespaces, odd max-depth values and bad page tokens; a quarter of the requests come from the hostile generator of C13 (mutated REST requests and gRPC messages with absent sub-messages, read and syntax endpoints only). After EACH request: the SQL-seam statement log of the request contains no INSERT/UPDATE/DELETE/REPLACE/DDL, "
             "and a dump of keto_relation_tuples and keto_uuid_mappings through a separate unwrapped sqlite connection is identical to before. mode 'fresh': the same on a registry created for the run, none of whose lazily built members exists yet; in half of the runs the first request it ever sees is a read, and writes keep arriving between the reads (the protected state is re-dumped after each). non-trivial = the protected state has rows; distinct = hash of (initial dump, request/response history). mode 'tenants': a registry with a contextualizer (multi-tenant deployment); half of the requests are issued for a network that has no row in the networks table - the dump includes that table."),
    "probes": ["probe_read_for_an_unregistered_tenant", "probe_first_request_is_a_read", "probe_write_between_reads", "probe_write_verb_on_read_port", "reads_ok", "reads_rejected", "probe_reads_hit_database", "req_hostile-rest", "req_hostile-grpc"] + ["req_" + k for k in ["check-get", "check-get-openapi", "check-post", "check-post-openapi", "check-grpc", "batch-rest", "batch-grpc", "expand-rest", "expand-grpc", "list-rest", "list-grpc", "namespaces-rest", "namespaces-grpc", "syntax-rest", "syntax-grpc"]],
    "real": REAL_S, "stub": STUB_S,
    "fault_kinds": {},
    "assumptions": ["the statement classifier at the SQL seam recognises write statements by their leading keyword"],
}


PROPS["C06"] = {
    "level": "exploration",
    "budget_s": {"quick": 70, "thorough": 1200},
    "modes": [{"name": "", "runs": {"quick": 1200, "thorough": 30000}, "chunk": 50},
              {"name": "manager", "runs": {"quick": 700, "thorough": 20000}, "chunk": 50}],
    "rule": ("mode 'manager' (the property's own observation point): 2-3 sql.Persisters / Traversers / check and expand engines with different network ids over ONE connection, driven with IDENTICAL UUIDs in every network (through the string API two networks never share an object UUID, which would hide a missing nid predicate); "
             "the other tenants hold random tuples and a block of 0..250 tuples; tenant A writes, deletes by value (blocks beyond any internal delete chunk, and tuples that exist only elsewhere), deletes by query (16 shapes) and transacts; after EVERY operation each other tenant's listings (5 query shapes, 3 page sizes), exists, subject-set expansion and rewrite traversals, check and expand results are unchanged, A lists exactly its own model, and checks in A are explained by A's own data. "
             "mode '': one run = 2 (quick) / 2-3 (thorough) tenants on ONE database behind ONE registry whose Contextualizer takes the network id from the request (real routers and gRPC servers serve all tenants; same strings used in all tenants). "
             "The other tenants are populated, a fixed set of their observables is recorded (full listing, 5 query shapes over REST and gRPC, 5 checks, 5 expands, hash of their raw rows), then 4-25 API operations run in tenant A "
             "(the C04 mix incl. delete-by-empty-query over gRPC and deletes aimed at relationships that exist only in another tenant). After EVERY operation: every recorded observable of every other tenant is unchanged and equals its model; "
             "tenant A's listing and checks equal A's own model; a relationship stored only in another tenant is not allowed in A. non-trivial = the other tenants hold data; distinct = hash of the history."),
    "probes": ["ops_in_A", "probe_delete_in_A", "probe_foreign_check", "probe_delete_by_value_in_A", "probe_delete_over_100_in_A", "probe_block_of_500_plus", "probe_bulk_write_and_delete_by_query_in_A", "probe_delete_by_query_in_A"],
    "real": REAL_S + ["ketoctx.Contextualizer / HTTP middleware / gRPC interceptor options of the real registry (driver.NewDefaultRegistry) carry the tenant"], "stub": STUB_S,
    "fault_kinds": {},
    "assumptions": ["tenants are distinguished by the network id returned by the Contextualizer, as in a multi-tenant embedding of keto"],
}


PROPS["C07"] = {
    "level": "exploration",
    "budget_s": {"quick": 70, "thorough": 1500},
    "modes": [{"name": "", "runs": {"quick": 1500, "thorough": 40000}, "chunk": 50},
              {"name": "writes", "runs": {"quick": 1500, "thorough": 40000}, "chunk": 50},
              {"name": "token", "runs": {"quick": 300, "thorough": 3000}, "chunk": 100},
              {"name": "traverse", "runs": {"quick": 150, "thorough": 4000}, "chunk": 10}],
    "rule": ("one run = n matching rows (n in {0,1,2,3,5,7,20,99,100,101,...,205}, with duplicates and non-matching rows) and a query of a tape-chosen shape, iterated page by page over REST or gRPC with page_size in {0,1,2,n-1,n,n+1,100,101}; "
             "mode 'writes': between page fetches another client inserts / deletes matching and non-matching rows. Oracles: every page <= page_size (0 => 100); every row alive for the whole iteration is returned, no content more often than it existed; "
             "without a concurrent matching write the pages are exactly ceil(n/size) (token empty <=> last page) and the multiset is exact; mode 'token': malformed page tokens are answered 4xx / InvalidArgument-class; one run in twelve uses 999..5003 rows with page sizes 500..7000; mode 'traverse' (the internal consumers of paging): a node with 99..3001 subject sets, exactly one of which - at a chosen position in storage order, biased to multiples of 100 / 1000 and the ends - contains the subject: the check must find it, must not allow an outsider, and the listing must return every row once. "
             "non-trivial = iteration needed >= 2 pages (mode token: every run); distinct = hash of (query, n, page size, transport, interleaving)."),
    "probes": ["probe_boundary_size", "probe_100_plus_rows", "probe_default_page_size", "interleaved_matching_insert", "interleaved_matching_delete", "interleaved_other_write", "malformed_tokens_rest", "malformed_tokens_grpc", "lookalike_tokens", "probe_fully_qualified_query_over_copies", "probe_page_size_changes_within_listing", "probe_thousands_of_rows", "probe_tens_of_thousands_of_rows", "probe_wide_node_over_1000", "traverse_cases"],
    "real": REAL_S, "stub": STUB_S,
    "fault_kinds": {},
    "assumptions": ["rows with equal content are indistinguishable in API output, so exactly-once is checked per content as a multiset bound"],
}


PROPS["C16"] = {
    "level": "exploration",
    "budget_s": {"quick": 70, "thorough": 900},
    "modes": [{"name": "", "runs": {"quick": 900, "thorough": 25000}, "chunk": 50},
              {"name": "faults", "runs": {"quick": 300, "thorough": 8000}, "chunk": 50}],
    "rule": ("one run = a name pool drawn from ~50 adversarial strings (empty, one rune, 4-byte runes, combining marks vs precomposed, case and trailing-space variants, control characters, RTL, 64 KiB, names equal to namespace/relation names, URL/SQL metacharacters) "
             "plus up to 260 generated names, and a batch of 1..250 tuples with repeats and the same string as object and subject. Checked: Mapper.FromTuple->ToTuple position by position, Map(s)=Map(s') <=> s=s', MapUUIDsToStrings with repeated ids, FromQuery->ToQuery, ToTree; "
             "then the batch is written through gRPC transact / REST patch / REST create and listed back (page sizes 0,1,100,101,250; REST and gRPC), listed by an adversarial object name, and expanded; strings must come back exactly, in the right fields. "
             "mode 'faults': one of the first 4 SQL statements of the listing fails (I/O): the read may fail, it may not return an empty or foreign string. non-trivial = >=3 distinct names; distinct = hash of the batch."),
    "probes": ["probe_over_100_distinct_names", "probe_listing_after_partial_delete", "probe_names_sharing_a_long_prefix", "probe_batch_over_100", "probe_repeats_in_batch"],
    "real": REAL_S, "stub": STUB_S,
    "fault_kinds": {"io": "a SQL statement of the listing (tuple query or mapping lookup) returns an I/O error"},
    "assumptions": ["names are valid UTF-8 without NUL (JSON and protobuf cannot carry anything else)"],
}


PROPS["C13"] = {
    "level": "exploration",
    "budget_s": {"quick": 70, "thorough": 1200},
    "modes": [{"name": "", "runs": {"quick": 3000, "thorough": 80000}, "chunk": 100},
              {"name": "faults", "runs": {"quick": 1000, "thorough": 25000}, "chunk": 100}],
    "rule": ("one run = 6-30 steps; a third is normal write/read traffic, the rest are hostile requests: REST requests built from the 12 documented endpoints and then mutated 1-3 times "
             "(JSON junk incl. null array elements, wrong types, truncation, deep nesting; bad page_size / max-depth / subject keys; bodies where none belong; wrong methods; odd paths) and gRPC requests with absent optional sub-messages, "
             "unset oneofs, unknown enum values, negative / huge numbers. Oracles: no panic escapes the REST handler chain (ServeHTTP wrapped in recover); REST status < 500 and gRPC code not in {Internal, Unknown, ...} unless an injected SQL fault fired inside the request (mode 'faults'); "
             "a request that was not accepted leaves the full listing equal to the model; the worker process survives (a death is re-confirmed in a fresh process). non-trivial = >=3 hostile requests; distinct = hash of the history."),
    "probes": ["hostile_rest", "hostile_grpc", "client_errors", "accepted"],
    "real": REAL_S, "stub": STUB_S,
    "fault_kinds": {"client-gone": "the request context is cancelled when the request issues its k-th SQL statement (REST): the client went away in the middle of the request", "io": "SQL statement I/O error", "busy": "database is locked", "badconn": "driver.ErrBadConn", "full": "SQLITE_FULL", "ctx": "context.Canceled"},
    "assumptions": ["net/http would turn an escaped handler panic into a dropped connection; the property forbids the panic itself, so it is reported"],
}


PROPS["C05"] = {
    "level": "fault_enumeration",
    "stall_s": {"thorough": 400},  # the >1000-row single-page case of stmt-interleave takes 2-3 minutes of CPU on its own
    "budget_s": {"quick": 90, "thorough": 2400},
    "modes": [{"name": "faults", "runs": {"quick": 260, "thorough": 6000}, "chunk": 10},
              {"name": "crash", "runs": {"quick": 120, "thorough": 3000}, "chunk": 10},
              {"name": "crash-wal", "runs": {"quick": 60, "thorough": 1500}, "chunk": 10},
              {"name": "isolation", "runs": {"quick": 150, "thorough": 4000}, "chunk": 25},
              {"name": "isolation-wal", "runs": {"quick": 80, "thorough": 2000}, "chunk": 25},
              {"name": "stmt-interleave", "runs": {"quick": 600, "thorough": 20000}, "chunk": 50}],
    "rule": ("mode faults: one run = one gRPC transact / REST patch request, or one direct Manager.WriteRelationTuples / DeleteRelationTuples call (the multi-tuple create / delete, without a handler transaction around it), with |I|,|D| drawn around the DISCOVERED chunk boundaries (doubling sweep + bisection on the number of INSERT/DELETE statements seen at the SQL seam), on a pre-state that contains the rows to delete and unrelated rows; "
             "the fault-free run fixes the N statements (BEGIN, mapping insert, every chunk, COMMIT) and the after-state; then for EVERY k<=N x {io,busy,badconn,full,ctx} the request is re-run from the restored pre-state with a fail-stop fault at statement k: state in {before, after}, before when an error was returned; "
             "then an invalid tuple (no subject / unknown namespace / unknown subject-set namespace) at every position (sampled for large requests, always including both sides of a chunk boundary); an L2 monitor requires one BEGIN, one COMMIT and every write statement on that connection. "
             "mode crash / crash-wal: file-backed SQLite (rollback journal / WAL); at every statement k all connections die and the database files are copied as a kill -9 would leave them; the copy is reopened: state in {before} (the commit had not run), and after a crash right after the acknowledgement: exactly after. "
             "mode isolation / isolation-wal (tier T): a writer toggling transact(insert X, delete Y) is parked before each of its statements while readers (REST list, gRPC list with paging, two checks) run to completion; the recorded history (event sequence numbers) is checked with porcupine against a two-state model. "
             "mode stmt-interleave (tier T, generalised): the toggling transaction (real PATCH handler) and one or two single-page listings run inside one scheduler bubble; every SQL statement and every acquisition of pop's SQLite mutexes is a scheduling point, so the whole transaction can also fall between two statements of one reader; a listing that answers shows the state before or after, and the stored state afterwards matches the acknowledgement. "
             "non-trivial = request touches >= 2 tuples (isolation: at least one read overlapped the transaction); distinct = hash of request shape and pre-state."),
    "probes": ["probe_multi_chunk_insert", "probe_multi_chunk_delete", "probe_direct_manager_call", "failed_atomically", "invalid_positions", "probe_action_in_another_spelling", "invalid_positions_manager", "fault_crash", "fault_crash_after_ack", "reads_during_transaction", "porcupine_ok", "probe_reader_and_writer_interleaved", "probe_single_page_over_1000_rows"],
    "real": REAL_S + ["SQLite file locking, rollback journal and WAL recovery (file-backed database in crash / isolation modes)", "porcupine v1.3.0 linearizability checker (isolation modes)"], "stub": STUB_S + ["crash = death of every connection + copy of the database files at that instant; power loss / torn pages / fsync lies are below any keto code and not modelled"],
    "fault_kinds": {"io": "statement returns an I/O error", "busy": "database is locked (pop retries)", "badconn": "driver.ErrBadConn", "full": "SQLITE_FULL", "ctx": "context.Canceled", "crash": "all connections die at statement k, files snapshotted"},
    "assumptions": ["fail-stop faults only: a 'commit succeeded but the ack was lost' fault without a crash is not injected (no implementation can satisfy 'unchanged when an error was returned' under it)", "isolation observed is SQLite's; keto's contribution (one transaction, every statement on the ctx connection) is what the monitor checks"],
}


PROPS["C08"] = {
    "level": "exploration",
    "budget_s": {"quick": 80, "thorough": 1800},
    "modes": [{"name": "", "runs": {"quick": 2200, "thorough": 60000}, "chunk": 100},
              {"name": "batch-order", "runs": {"quick": 2500, "thorough": 80000}, "chunk": 250}],
    "rule": ("mode '' (tier S): one run = a generated (config, store) as in C01 (limits non-binding) and a tuple under test (the generated query, a stored relationship, an unknown namespace, an unknown subject-set namespace, arbitrary unicode object) with max-depth absent / 0 / -1 / huge; "
             "the engine decision is compared with REST GET and POST check (status-mirroring: 200 <=> allowed, 403 <=> denied; and always-200), gRPC Check, and with the entry of REST and gRPC batches that carry the tuple at a tape-chosen index among valid, no-subject, unknown-namespace, duplicate and 'evil twin' entries (a different relationship with the same textual rendering: a subject id spelled like a subject set) "
             "(results in request order, one per tuple, a bad entry affects only its own result; over-limit batches are client errors). "
             "mode 'batch-order' (tier E): BatchCheck of 2-8 distinct queries with individually known reference answers inside a synctest bubble, parallelisation limit 1..6, 3/10 tape-chosen release orders of the workers' storage calls: results[i] must be the answer for tuples[i]. "
             "non-trivial = the reference derivation needs a hop or rewrite (batch-order: the batch mixes allowed and denied entries); distinct = hash of (config, tuples, query)."),
    "probes": ["engine_allowed", "engine_denied", "probe_unknown_namespace", "probe_evil_twin_entries", "probe_empty_subject_id", "probe_entry_with_both_subject_kinds", "probe_mixed_batch", "probe_batch_over_limit", "probe_mixed_answers", "probe_workers_in_flight"],
    "real": REAL_S + ["tier E part: real check.Engine.BatchCheck (errgroup workers) scheduled at the storage seam"], "stub": STUB_S,
    "fault_kinds": {},
    "assumptions": ["'never allowed' for an unknown namespace accepts both a denied answer and a client error; the transports need not agree on how they refuse"],
}


PROPS["C09"] = {
    "level": "exploration",
    "budget_s": {"quick": 150, "thorough": 1800},
    "modes": [{"name": "", "runs": {"quick": 5000, "thorough": 150000}, "chunk": 250},
              {"name": "faults", "runs": {"quick": 1000, "thorough": 40000}, "chunk": 100}],
    "rule": ("one run = a rewrite-free store (random edges, chains with shortcuts so that one subject set is reachable at two depths, cycles, wide nodes, one > 100 children case per 200 runs), a subject set, global depth g in {1,2,3,4,5,8,50}, request depth in {-2,0,1,2,3,4,5,7,100}, "
             "engine-side page size 1-3 or default; 6 (quick) / 24 (thorough) executions on different storage orders (which path reaches a node first). Oracles: every parent->child edge is a stored relationship; a subject set is expanded at most once; levels <= effective depth; termination; "
             "every subject within (effective depth - 1) hops is in the tree and nothing unreachable is; with depth not binding the subject-id leaves equal the subjects for which the reference AND the real check engine say allowed, and REST / gRPC expand equal the engine tree. "
             "mode 'faults': after every fault-free expansion the same expansion is repeated on the same stored state with the k-th storage call failing (every k when the expansion makes <= 6 calls, else 6 sampled; transient, persistent, serialization-conflict or context cancellation): a tree that is returned without an error must equal the fault-free tree. "
             "This is the thinnest simulation target of the claimed set: the randomness sources are the storage order and the fault position; no concurrency. non-trivial = some subject is >= 2 hops away; distinct = hash of (tuples, set, depths)."),
    "probes": ["probe_depth_binding", "probe_depth_not_binding", "probe_tree_depends_on_storage_order", "probe_over_100_children", "probe_relationships_of_a_removed_namespace", "fault_surfaced_as_error", "deadline_surfaced_as_error", "deadline_met_same_tree"],
    "probe_min_runs": 4000,
    "real": ["keto internal/expand.Engine (sequential), internal/x/graph visited set, expand REST/gRPC handlers, Mapper.ToTree, internal/persistence/sql GetRelationTuples paging, SQLite"], "stub": STUB_E,
    "fault_kinds": {"deadline": "every storage call takes 10 ms of simulated time and the request context expires inside the j-th call (or after the last one)", "transient": "k-th storage call of the expansion returns an error", "persistent": "k-th and every later call fail", "conflict": "k-th call fails with sqlcon.ErrConcurrentUpdate (the retryable serialization failure)", "ctx": "request context cancelled at the k-th call"},
    "assumptions": ["'within the effective depth' is read as: a subject k hops away must appear when k <= effective depth - 1 (the tree has at most 'effective depth' levels)"],
}


PROPS["C11"] = {
    "level": "exploration",
    "budget_s": {"quick": 70, "thorough": 1500},
    "modes": [{"name": "", "runs": {"quick": 2500, "thorough": 60000}, "chunk": 100},
              {"name": "reject", "runs": {"quick": 3000, "thorough": 60000}, "chunk": 500},
              {"name": "mutants", "runs": {"quick": 4000, "thorough": 120000}, "chunk": 200}],
    "rule": ("mode '' (simulation, tier E): one run = a typed OPL program (2-4 namespaces; relations typed with namespaces and SubjectSet<T,R>, unions; permissions over includes / permits / traverse into related and permits) that keto's real parser and type checker ACCEPT (others are skipped and counted), "
             "default or strict mode, a type-conforming store, and a check on EVERY declared (namespace, relation) x 3 objects under 1 (quick) / 3 (thorough) tape-chosen schedules (which sub-check result the checkgroup sees first decides whether an error surfaces). Oracle: no result carries a schema error ('relation ... does not exist', 'not implemented'). "
             "mode 'mutants' (tier E): 1-3 token-level mutations (deletion, duplication, swap, insertion of operators / brackets / keywords) of such a program; the mutants that keto's parser STILL accepts without errors (the property quantifies over every accepted program) are installed as they are and every declared (namespace, relation) is checked on a store that conforms to the parsed types: no schema error and no panic (a panic kills the worker; the death is confirmed in a fresh process). "
             "mode 'reject' (NOT simulation - a plain seeded generator check, reported separately): one reference of an accepted program (type namespace, SubjectSet namespace / relation, includes, permits, traverse relation, traverse computed relation) is replaced by an undeclared name; Parse must return errors, one of them at the replaced token. "
             "non-trivial = program has rewrites and the store is non-empty; distinct = hash of (program, store)."),
    "probes": ["probe_traverse_over_subjectset_type", "strict_cases", "mutants_accepted", "mutated_type-namespace", "mutated_subjectset-relation", "mutated_includes", "mutated_traverse-rel", "mutated_traverse-computed"],
    "real": REAL_E + ["internal/schema parser and type checker (real, decides acceptance)"], "stub": STUB_E,
    "fault_kinds": {},
    "assumptions": ["a schema error is recognised by its message ('does not exist' / 'not implemented' / bad-request reason)", "mode 'reject' has no schedule, fault or history: it is input generation, included for completeness of the property and labelled so"],
}


PROPS["C14"] = {
    "level": "exploration",
    "race": True,
    "budget_s": {"quick": 90, "thorough": 2100},
    "modes": [{"name": "", "runs": {"quick": 5000, "thorough": 100000}, "chunk": 250},
              {"name": "handlers", "runs": {"quick": 2500, "thorough": 60000}, "chunk": 250},
              {"name": "statements", "runs": {"quick": 1500, "thorough": 40000}, "chunk": 150},
              {"name": "race", "runs": {"quick": 120, "thorough": 3000}, "chunk": 5, "race": True}],
    "rule": ("mode '' (tier E): one run = a fixed generated store and configuration whose single-request answer cannot depend on the schedule (rewrite-free or ||-only, limits non-binding) and 2-6 requests (check, batch check of 2-4 tuples, expand, list) started together in one synctest bubble; "
             "4 (quick) / 12 (thorough) tape-chosen interleavings of ALL their storage calls; every concurrent result must equal the result of the same request run alone. "
             "mode 'handlers' (tier E): the requests are REST requests through the real check / expand / list handlers (on the L1-wrapped dependencies, private routers) inside the bubble, among them 2-3 checks of the SAME tuple with different max-depth values on a chain where depth decides; every (status, body) must equal the one obtained alone. In a third of the executions of mode '' the request in front is cancelled by its client at a tape-chosen instant (preferably one with an identical twin in flight); the others must answer as alone. "
             "mode 'statements': mode handlers with every SQL statement and every acquisition of pop's SQLite mutex as additional scheduling points (requests interleave inside one storage call), and in half of the runs an earlier list / expand request has met an I/O, busy or context fault at one of its SQL statements first: what a failed request leaves behind in the process must not reach the others. "
             "mode 'race' (-race build, GOMAXPROCS=1): a FRESH registry per run (no member warmed up) receives a burst of 3-8 concurrent read and write requests through the real routers and gRPC servers; the race detector works on happens-before, so unordered accesses are flagged without real parallelism; "
             "a report halts the worker and is confirmed in a fresh process. non-trivial = the request set mixes at least two kinds (race: every burst); distinct = hash of (config, tuples, requests)."),
    "probes": ["probe_burst_on_config_with_permissions", "probe_incomplete_check_in_burst", "probe_unknown_namespace_in_burst", "probe_one_request_cancelled", "probe_cancelled_request_has_twin", "probe_requests_interleaved", "kind_check", "kind_batch", "kind_expand", "kind_list", "concurrent_requests", "probe_shared_group_gadget", "probe_duplicate_requests", "stragglers_completed_late", "probe_depth_decides", "handler_requests"],
    "real": REAL_E + ["race mode: real routers, gRPC servers over bufconn, freshly constructed registry, Go race detector"], "stub": STUB_E,
    "fault_kinds": {},
    "assumptions": ["the race clause is the weakest part: incidental mutex edges can hide a race in one order; absence of a report is weak evidence", "single-request answers are schedule-independent for the generated configurations (no && / !)"],
}


PROPS["C19"] = {
    "level": "exploration",
    "budget_s": {"quick": 70, "thorough": 1800},
    "modes": [{"name": "opl-file", "runs": {"quick": 2000, "thorough": 50000}, "chunk": 250},
              {"name": "opl-dir", "runs": {"quick": 3000, "thorough": 80000}, "chunk": 250},
              {"name": "legacy-file", "runs": {"quick": 1500, "thorough": 40000}, "chunk": 250},
              {"name": "legacy-dir", "runs": {"quick": 3000, "thorough": 80000}, "chunk": 250},
              {"name": "interleave", "runs": {"quick": 3000, "thorough": 100000}, "chunk": 250}],
    "rule": ("one run = a simulated directory of 1-3 watched files (OPL .ts, or legacy .json/.yaml/.yml/.toml) and 6-40 (quick) / 6-90 (thorough) tape-chosen steps: edits (replace, truncate-then-write in chunks, remove, re-create) with versions that are valid, syntactically broken, type-incorrect, empty or torn; "
             "deliveries of pending notifications in any order with faults (duplicate, torn read, read error, dropped - never the last one of a file, coalescing at the end); samples. Each delivery is turned, at that instant, into the watcherx event the real file watcher would produce for the file's content at that instant and sent down the real unbuffered channel into the real startEventHandler loop; "
             "a third of the deliveries race with a concurrent reader goroutine. Every valid OPL version also declares a stable namespace whose permission means 'member' in even and 'not member' in odd versions; after every delivery a check through the real engine must decide by the visible version. Oracle R5 at every sample and after every delivery: for each file the visible namespaces (manager listing, lookups and GET /namespaces) are exactly those of ONE valid version delivered so far (none only before the first valid version or after a delivered removal); "
             "after faults stop and everything pending is delivered, each file's visible namespaces are those of its current valid content (bounded liveness: one quiescence round). "
             "mode 'interleave' (tier K, lock-level scheduling): 1-5 reloads (valid versions, some duplicated) are handed to the real event loop while 1-3 reader goroutines make 2-5 reads each (manager listing, GetNamespaceByName, GET /namespaces through the real router). Every Lock/RLock/Unlock/RUnlock of keto is a scheduling point (tools/lockyield build overlay + sim/simlock seam): "
             "a goroutine parks before each acquisition and after each release, acquisitions are TryLock under the controller, and the tape picks who proceeds, so a reload and a read interleave between any two lock operations. Oracles: no deadlock, nobody stuck, the history of reloads and reads (stamped with the scheduler's logical clock) is linearizable against the single-copy model (porcupine), and after the last reload every accessor shows the last version. "
             "non-trivial = history longer than 8 events (interleave: >= 4 real scheduling choices); distinct = hash of the history."),
    "probes": ["delivered_valid", "delivered_syntax", "delivered_type", "delivered_torn", "delivered_remove", "concurrent_reads", "samples", "engine_checks", "converged_files", "probe_multi_file", "fault_duplicate", "fault_torn-read", "fault_read-error", "fault_dropped", "fault_partial-state-delivered", "lock_acquisitions_scheduled", "schedule_choices", "porcupine_ok"],
    "real": ["keto internal/driver/config: oplConfigWatcher, NamespaceWatcher, memoryNamespaceManager, startEventHandler loop (through the verif-tagged hook file), internal/schema parser and type checker, ghodss/yaml, go-toml, encoding/json, namespacehandler GET /namespaces through the real read router"],
    "stub": ["fsnotify, the OS file system and watcherx's watcher goroutines: replaced by the simulated directory + notification queue (events built with watcherx's own event types)", "Config key changes (resetNamespaceManager) and websocket/http/base64 locations: out of scope, the property speaks about file changes"],
    "fault_kinds": {"duplicate": "a notification is delivered twice", "torn-read": "the event carries a strict prefix of the file (opl/json only: a prefix never parses there)", "read-error": "watcherx ErrorEvent instead of content", "dropped": "a notification is lost (never the last one of a file)", "partial-state-delivered": "delivery between truncate and the last chunk"},
    "assumptions": ["a valid version is recognised by the generator's own tag, not by keto's parser", "YAML/TOML files are only replaced atomically: a prefix of such a file can parse to different content, which no server could tell from a real version", "for the OPL watcher an empty file is a valid version that declares no namespaces"],
}


# what later rounds added to the workloads (DESIGN.md 17.12, 17.13)
_RULE_ADDENDA = {
    "C01": "Gadgets: one case in ten stores the SAME relationship zero to three times under some operands of an intersection (also negated, nested, reached through permits) and not under others; one case in twelve writes relationships while a namespace 'Gone' is configured, hangs dead-end subject sets of it off nodes of the case and takes it out of the configuration before the check.",
    "C03": "Mode sql also lets the database go away for good: from SQL statement k on every statement of the execution fails.",
    "C04": "One REST patch in four carries an entry that names BOTH a subject id and a subject set (the request is refused, or the entry is stored by either subject; every other entry exactly as written); mode bulk starts with the large write once more with one entry that names an unknown namespace (end / middle / just past the first thousand): rejected without any effect.",
    "C05": "REST patches also spell the action word of one delta differently (INSERT, Delete, deletE): the request is applied as a whole or not at all.",
    "C08": "max-depth also takes the binding values 1 and 2; REST batches get one more entry naming both kinds of subject at a tape-chosen index: the batch is answered and every other entry keeps its result.",
    "C09": "One case in eight holds subject sets of a namespace that is removed from the configuration after writing, at tape-chosen positions of the storage order: the tree shows them and everything stored after them. Mode faults also gives every storage call 10 ms of simulated time and the request a deadline inside the j-th call (or after the last): the answer is the whole tree or an error.",
    "C11": "A third of the programs write `permits` before `related`; a third carry a relation typed as a union of two to four subject sets that three permissions traverse, in the first or last class; an eighth annotate traverse parameters with a type (skipped while the parser rejects the syntax).",
    "C15": "One case in four enters through the REST check handlers (the request context is the one cancelled); one case in three runs on a connection pool of ONE connection.",
    "C19": "Invalid JSON versions include a complete object followed by left-overs and two objects in one file; mode interleave schedules with sync.RWMutex writer preference (a reader behind a waiting writer waits) and also asks for names no version declares.",
}
for _k, _v in _RULE_ADDENDA.items():
    PROPS[_k]["rule"] += " " + _v


def evidence(prop, spec, tier, seed, records, deaths, unfinished, planned, wall_s, sim_wall_s, build_s, nworkers, n_new, known_hits):
    runs = 0
    execs = 0
    nontrivial = set()
    cases = set()
    schedules = set()
    parked_sets = 0
    counters = collections.Counter()
    skipped = collections.Counter()
    samples = []
    sim_ns = 0
    per_mode = collections.Counter()
    nviol = 0
    for mode, r in records:
        runs += 1
        per_mode[mode or "default"] += 1
        execs += r.get("execs", 0)
        if r.get("skipped"):
            skipped[r["skipped"]] += 1
        ch = r.get("case_hash")
        if ch:
            cases.add((mode, ch))
            if r.get("nontrivial"):
                nontrivial.add((mode, ch))
        for s in r.get("schedules") or []:
            schedules.add(s)
        parked_sets += r.get("parked_sets", 0)
        for k, v in (r.get("counters") or {}).items():
            counters[k] += v
        sim_ns += r.get("sim_time_ns", 0)
        nviol += len(r.get("violations") or [])
        if r.get("sample") and len(samples) < 6:
            samples.append({"mode": mode, "run": r["run"], "case": r["sample"]})
    nviol += len(deaths)
    if not samples:
        samples = [{"note": "no sample recorded (all sampled runs were skipped)"}]
    probes = {p: counters.get(p, 0) for p in spec.get("probes", [])}
    starved = [p for p, n in probes.items() if n == 0 and unfinished == 0 and runs >= spec.get("probe_min_runs", 2000)]
    faults = {k: counters.get(k, 0) for k in counters if k.startswith("fault_")}
    hours = max(sim_wall_s, 1e-6) / 3600.0
    cov = {
        "evaluations": execs if execs else runs,
        "distinct_nontrivial": len(nontrivial),
        "rule": spec["rule"],
        "samples": samples,
        "runs": runs,
        "runs_planned": planned,
        "runs_not_started_time_cap": unfinished,
        "runs_per_mode": dict(per_mode),
        "distinct_cases": len(cases),
        "skipped": dict(skipped),
        "distinct_schedules": len(schedules),
        "parked_set_states_visited": parked_sets,
        "runs_per_hour": int(runs / hours),
        "executions_per_hour": int(execs / hours),
        "seeds": [seed],
        "simulated_time_s": sim_ns / 1e9,
        "simulated_time_note": "fake clock of the synctest bubble; 0 where no timer is on the checked path",
        "faults_injected": faults,
        "fault_kinds_configured": spec.get("fault_kinds", {}),
        "probes": probes,
        "starved_probes": starved,
        "counters": dict(counters),
        "components_real": spec.get("real", []),
        "components_stub": spec.get("stub", []),
        "worker_processes": nworkers,
        "worker_deaths": len(deaths),
        "known_findings_matched": {k: n for k, (f, n) in known_hits.items()},
        "exhaustive": False,
        "build_s": round(build_s, 1),
        "simulation_wall_s": round(sim_wall_s, 1),
    }
    return {
        "property_id": prop,
        "tier": tier,
        "seed": seed,
        "level": spec["level"],
        "coverage": cov,
        "assumptions": spec.get("assumptions", []),
        "wall_s": round(wall_s, 1),
        "violations": n_new,
    }


SIM = "deterministic simulation with fault injection"
MANIFEST_TEXT = {
 "C19": {"text": "seeded edit histories of watched files with delayed, reordered, duplicated, dropped, torn and failing notifications driven into the real watcher event loop inside a synctest bubble, sampled by readers (some racing with deliveries); keep-last-good / never-partial invariant after every event and convergence once faults stop; plus reloads interleaved with reader goroutines at every mutex operation (mode interleave)",
         "note": "fsnotify and the OS are simulated; events carry the file content at the delivery instant as the real watcher does",
         "technique": SIM + ": simulated file system and notification transport with fault injection, real event loop, version-history reference model; lock-level seeded scheduling of reloads against readers (every mutex operation a scheduling point) with a porcupine linearizability check of the recorded history"},
 "C14": {"text": "seeded sets of concurrent requests inside one scheduler bubble with all storage calls interleaved by the tape, each result compared with the request run alone; plus bursts of concurrent requests against a fresh registry under the Go race detector",
         "note": "interleaving at storage-call granularity (modes '' and handlers) and at SQL-statement granularity with pop's SQLite mutex scheduled (mode statements); the race clause relies on the detector's happens-before analysis and is weak evidence when clean",
         "technique": SIM + ": seeded interleaving of several requests at the storage seam and at the SQL-driver seam, client cancellation and an earlier failed request as faults; race-detector build for the data-race clause"},
 "C11": {"text": "seeded typed OPL programs accepted by the real type checker, conforming stores, every declared (namespace, relation) checked under tape-chosen schedules: no schema error may surface; the rejection half is a plain generator check (not simulation), reported separately in the evidence",
         "note": "acceptance is decided by keto's own parser; programs it rejects are skipped; KF-15 and KF-18 were found by this check and are repaired in /repo",
         "technique": SIM + " for the run-time half (seeded scheduler at the storage seam); seeded generator check for the rejection half"},
 "C09": {"text": "seeded stores and depths with the storage order (shard ids) varied per execution; tree soundness, expand-once, depth, completeness against a reachability reference, agreement with check and with the REST/gRPC transports",
         "note": "narrow simulation target: the expand engine is sequential; the nondeterminism is the storage order, the paging and (mode faults) the position and kind of a failing storage call",
         "technique": SIM + ": seeded uuid seam (storage order) + paging knob + storage-call fault enumeration, reachability reference model"},
 "C08": {"text": "seeded (config, store, tuple) cases compared across the engine, four REST check variants, gRPC Check and REST/gRPC batch entries at tape-chosen positions among bad entries; plus BatchCheck inside the scheduler bubble with tape-chosen worker finishing orders",
         "note": "limits non-binding so that a decision is one value; HTTP/gRPC wire framing not exercised",
         "technique": SIM + ": differential transports over generated states, seeded scheduling of batch workers at the storage seam"},
 "C05": {"text": "per generated request the failing SQL statement k is enumerated exhaustively over the statements of the request (x 5 fault kinds), the invalid tuple position over the request, and the crash point over every statement plus 'right after the ack'; a parked-writer / running-readers history is checked with porcupine; requests are sampled around the discovered chunk sizes",
         "note": "fail-stop faults and process-death crashes only; SQLite only; chunk boundaries are discovered at run time, not copied",
         "technique": SIM + ": statement-level fault and crash-point enumeration at the SQL-driver seam, file-snapshot restart, porcupine linearizability check of a scheduled reader/writer history"},
 "C13": {"text": "seeded hostile request streams (mutated REST requests, gRPC messages with absent sub-messages) interleaved with normal traffic against the real routers and gRPC servers, with and without fail-stop SQL faults; panic, 5xx/Internal, state-change and process-death oracles",
         "note": "sampling of an unbounded input space; transport framing (HTTP parsing, HTTP/2) is not exercised",
         "technique": SIM + ": generated hostile histories with fault injection at the SQL-driver seam and a model of the stored state"},
 "C16": {"text": "seeded batches of adversarial names through the real mapper (round trips position by position) and through the write and read APIs, with an I/O fault variant on the mapping lookups",
         "note": "valid UTF-8, NUL-free names; SQLite only",
         "technique": SIM + ": generated batches across the internal paging boundaries, model comparison, SQL-statement fault injection"},
 "C01": {"text": "seeded search over generated (config, store, query) cases x release orders of the engine's concurrent storage calls x storage orders, each compared with an independent stratified Zanzibar evaluator; sampling, not proof",
         "note": "trusts the reference evaluator sim/ref.go, SQLite and the Go runtime between two storage calls; only the sqlite dialect runs; limits non-binding by the reference's criterion",
         "technique": SIM + ": seeded scheduler at the storage seam inside a synctest bubble, reference-model oracle"},
 "C02": {"text": "seeded search over cases with binding depth/width limits: fail-closed implication against the unbounded reference, and call-for-call trace equality of (request depth r, global g) vs (0, eff(r,g)) under the same schedule tape",
         "note": "trusts the reference evaluator as the unbounded semantics; KF-08 (cut below a negation inverted into allowed) was found by this check and is repaired in /repo (828fc43)",
         "technique": SIM + ": same-tape differential execution under the seeded scheduler, reference-model oracle"},
 "C03": {"text": "per generated case the fault position k is enumerated over every storage call of the fault-free schedule (exhaustive when N <= limit) x {transient, persistent, ctx}; oracle: error or the fault-free answer, never error+allowed; cases are sampled",
         "note": "faults are fail-stop at the relationtuple.Manager / Traverser seam; limits non-binding so that the fault-free answer is one value",
         "technique": SIM + ": fault enumeration at the storage-API seam under a replayed schedule tape"},
 "C04": {"text": "seeded API histories through the real routers / gRPC servers, model-checked step by step against a multiset reference (ShardStore-style conformance), fault-free and with fail-stop SQL statement faults",
         "note": "ops run one at a time; SQLite only; model sim/sys.go is the specification",
         "technique": SIM + ": history generation + reference-model conformance with SQL-statement fault injection"},
 "C06": {"text": "seeded histories in tenant A against one multi-tenant registry (Contextualizer) with every observable of the other tenants re-observed after every operation and compared with its snapshot and model",
         "note": "tenants share one SQLite database; isolation by nid predicates and per-network UUIDv5 are both real code",
         "technique": SIM + ": multi-tenant history simulation with observable-invariance oracle"},
 "C07": {"text": "seeded pagination iterations across page-size boundaries over REST and gRPC, interleaved with another client's inserts and deletes; exactly-once bounds per row content, page-size bound, token-empty-iff-last, malformed tokens",
         "note": "rows with equal content are indistinguishable in API output (multiset bounds); SQLite only",
         "technique": SIM + ": interleaved client histories with an iterator reference model"},
 "C15": {"text": "per generated case the cancellation instant j and the failing storage call k are enumerated over every storage call of the fault-free schedule (exhaustive when N <= limit); oracles: return, bounded storage calls, prompt return after cancel, no goroutine left (synctest deadlock detection), process survival",
         "note": "bound on storage calls is deliberately loose; select between a ready result and a cancelled context is not seedable, both outcomes accepted",
         "technique": SIM + ": cancellation / fault enumeration under the seeded scheduler, synctest quiescence as leak and hang detector"},
 "C17": {"text": "seeded read/syntax request sequences over all 15 read entry points; oracle at the SQL-driver seam (no write statement) plus byte-level table dump through an unwrapped connection after every request",
         "note": "statement classification by leading keyword; SQLite only",
         "technique": SIM + ": request-sequence simulation with a statement-log monitor at the SQL-driver seam"},
}
