"""Determinism self-test (DESIGN.md section 7): run the same runs in many fresh
processes at several GOMAXPROCS values and diff the per-run digests (hash of
everything observable: chosen keys, parked sets, results)."""
import os, sys, json, subprocess, collections, shutil, time


def main(argv, g):
    prop = argv[1] if len(argv) > 1 else "C01"
    runs = int(os.environ.get("ST_RUNS", "150"))
    procs = int(os.environ.get("ST_PROCS", "30"))
    tier = os.environ.get("ST_TIER", "quick")
    seed = int(os.environ.get("VERIF_SEED", "99"))
    modes = [m["name"] for m in g["PLAN"].PROPS[prop]["modes"]]
    binp, _ = g["build"]()
    wd = os.path.join(g["WORK"], "selftest-" + prop)
    shutil.rmtree(wd, ignore_errors=True)
    os.makedirs(wd)
    bad = 0
    for mode in modes:
        ps = []
        for i in range(procs):
            gl = os.environ.get("ST_GMP", "1,4,16").split(",")
            gmp = gl[i % len(gl)]
            out = os.path.join(wd, "p%s-%d.jsonl" % (mode, i))
            env = g["worker_env"](prop, mode, tier, seed, 0, runs, out)
            env["GOMAXPROCS"] = gmp
            if i % 2:
                env["GODEBUG"] = ""
            ps.append((subprocess.Popen([binp, "-test.run", "^TestWorker$", "-test.timeout", "1h"], env=env, stdout=subprocess.DEVNULL, stderr=subprocess.DEVNULL, cwd=wd), out, gmp))
            while sum(1 for p, _, _ in ps if p.poll() is None) >= 14:
                time.sleep(0.05)
        digests = collections.defaultdict(collections.Counter)
        for p, out, gmp in ps:
            p.wait()
            recs, _ = g["parse_out"](out)
            for r in recs:
                digests[r["run"]][(r.get("digest"), gmp)] += 1
        diverged = []
        for run, c in sorted(digests.items()):
            ds = set(d for d, _ in c)
            if len(ds) > 1:
                diverged.append((run, dict(("%s@%s" % k, v) for k, v in c.items())))
        print("mode=%r runs=%d processes=%d diverged=%d" % (mode, len(digests), procs, len(diverged)))
        for run, c in diverged[:10]:
            print("  run", run, c)
        bad += len(diverged)
    return 2 if bad else 0
