#!/usr/bin/env python3
"""Runs the seeded changes under /verif/seeded against the checks of the properties they break, several at a time.

Each lane has its own scratch git worktree of /repo and its own copy of /verif under /tmp/seedlane-<i> (removed at the
end); the change is applied to the lane's worktree and the lane's copy of ./check runs with VERIF_REPO pointing at it.
Neither /repo's working tree nor /verif/evidence is touched. The outcome is recorded in seeded/<id>/meta.json
("results"), as tools/run_seeded.py does for a run against /repo itself.

usage: run_seeded_par.py [--lanes N] [--workers K] [--thorough] [id ...]
"""
import json, os, subprocess, sys, time, threading, queue, shutil

ROOT = os.path.dirname(os.path.dirname(os.path.abspath(__file__)))
args = sys.argv[1:]
def opt(name, default):
    if name in args:
        i = args.index(name)
        v = args[i + 1]
        del args[i:i + 2]
        return v
    return default
lanes = int(opt("--lanes", "4"))
workers = opt("--workers", "4")
tier = "thorough" if "--thorough" in args else "quick"
only = [a for a in args if not a.startswith("--")]

jobs = queue.Queue()
for d in sorted(os.listdir(os.path.join(ROOT, "seeded"))):
    mp = os.path.join(ROOT, "seeded", d, "meta.json")
    if os.path.isfile(mp) and (not only or d in only):
        jobs.put(d)
lock = threading.Lock()
build_lock = threading.Lock()

def sh(cmd, **kw):
    return subprocess.run(cmd, shell=True, capture_output=True, text=True, **kw)

def lane(i):
    base = "/tmp/seedlane-%d" % i
    repo, verif = base + "/repo", base + "/verif"
    shutil.rmtree(base, ignore_errors=True)
    os.makedirs(base)
    sh("git -C /repo worktree prune; git -C /repo worktree add --detach %s HEAD" % repo)
    sh("rsync -a --exclude bin --exclude .git --exclude work --exclude evidence --exclude replays %s/ %s/" % (ROOT, verif))
    os.makedirs(verif + "/evidence", exist_ok=True)
    env = dict(os.environ, VERIF_REPO=repo, VERIF_WORKERS=workers)
    with build_lock:
        # first build of the lane (tool, pop copy, overlay, both binaries), one lane at a time
        subprocess.run(["./check", "build", "--race"], cwd=verif, env=env, capture_output=True, text=True)
    try:
        while True:
            try:
                d = jobs.get_nowait()
            except queue.Empty:
                return
            mp = os.path.join(ROOT, "seeded", d, "meta.json")
            meta = json.load(open(mp))
            patch = os.path.join(ROOT, "seeded", d, "patch.diff")
            t0 = time.time()
            res = {}
            ap = sh("git -C %s apply %s" % (repo, patch))
            if ap.returncode != 0:
                res = {p: {"outcome": "TROUBLE", "detail": "patch does not apply: " + ap.stderr[-200:]} for p in meta["breaks"]}
            else:
                for p in meta["breaks"]:
                    r = subprocess.run(["./check", p, tier], cwd=verif, env=env, capture_output=True, text=True, errors="replace")
                    lines = [l for l in r.stdout.splitlines() if l.startswith(("violation ", "VIOLATION", "OK ", "NOT-REPLAYABLE", "BUILD-FAILED", "NONDET", "STARVED", "WATCHDOG", "EMPTY"))]
                    if r.returncode == 1 and any(l.startswith("VIOLATION") for l in lines):
                        oc = "CAUGHT"
                    elif r.returncode == 0:
                        oc = "MISSED"
                    else:
                        oc = "TROUBLE"
                        lines = lines or [("exit %d: " % r.returncode) + (r.stdout + r.stderr)[-300:].replace("\n", " | ")]
                    res[p] = {"outcome": oc, "detail": " ".join(lines[:3])[:400]}
                sh("git -C %s checkout -- . && git -C %s clean -fdq" % (repo, repo))
            with lock:
                meta = json.load(open(mp))
                meta.setdefault("results", {})[tier] = {"ran": "tools/run_seeded_par.py %s (change applied to a scratch worktree of /repo, ./check %s %s with VERIF_REPO)" % (d, ",".join(meta["breaks"]), tier),
                                                        "checks": res, "wall_s": round(time.time() - t0, 1), "repo_head": sh("git -C /repo rev-parse --short HEAD").stdout.strip()}
                json.dump(meta, open(mp, "w"), indent=1)
                print(d, {k: v["outcome"] for k, v in res.items()}, flush=True)
    finally:
        sh("git -C /repo worktree remove --force %s" % repo)
        shutil.rmtree(base, ignore_errors=True)

ts = [threading.Thread(target=lane, args=(i,)) for i in range(lanes)]
for t in ts:
    t.start()
for t in ts:
    t.join()
