#!/usr/bin/env python3
"""Regenerates /verif/MANIFEST.json from lib/plan.py (claimed checks) and the fixed not-applicable list."""
import json, sys, os, subprocess
ROOT = os.path.dirname(os.path.dirname(os.path.abspath(__file__)))
sys.path.insert(0, os.path.join(ROOT, "lib"))
import plan
props = [json.loads(l) for l in open(os.path.join(ROOT, "properties.jsonl"))]
NA = {
 "C10": "pure function from program text to AST / truth table: no schedule, clock, fault, I/O or history for a simulator to own; deciding it needs a grammar-driven generator with a TypeScript oracle, which is input generation, not simulation (DESIGN.md section 5). Its end-to-end consequence is observed by C01's OPL encodings.",
 "C12": "pure function of an input byte string; the lexer's channel is a same-goroutine buffer, there is no concurrency, timer or I/O to simulate (DESIGN.md section 5). Arbitrary bodies to the syntax endpoints are part of C13's hostile workload.",
 "C18": "pure encode/decode functions in package ketoapi; nothing to schedule or fail (DESIGN.md section 5).",
}
TEXT = plan.MANIFEST_TEXT
checks = []
for p in props:
    pid = p["id"]
    if pid not in plan.PROPS or pid not in TEXT:
        continue
    spec = plan.PROPS[pid]
    t = TEXT[pid]
    checks.append({
        "property_id": pid,
        "quick_cmd": "./check %s quick" % pid,
        "thorough_cmd": "./check %s thorough" % pid,
        "evidence_file": "/verif/evidence/%s.json" % pid,
        "replay_cmd_template": "./check %s --replay {path}" % pid,
        "engine": "keto-sim",
        "level_claimed": {"category": spec["level"], "text": t["text"], "design_ref": "DESIGN.md section 4 " + pid},
        "level_note": t["note"],
        "technique": t["technique"],
    })
claimed = [c["property_id"] for c in checks]
na = [{"property_id": p["id"], "reason": NA.get(p["id"], "check not built yet in this session (planned, see DESIGN.md section 4)")} for p in props if p["id"] not in claimed]
hooks_commits = subprocess.run(["git", "-C", "/repo", "log", "--format=%H", "--grep", "^verif hook"], capture_output=True, text=True).stdout.split()
m = {
 "version": 1,
 "setup_cmd": "./check build --race",
 "hooks": {"guard": "verif", "enable": "checks build the simulator with `GOTOOLCHAIN=local go1.26.8 test -c -tags \"sqlite verif\"` in /verif/sim, which reaches /repo through a replace directive (so /repo's working tree is rebuilt on every check). The lock seam needs no hook in /repo: tools/lockyield rewrites the mutex operations of /repo/internal (and of a scratch copy of pop's SQLite dialect file) into a build overlay under /verif/bin on every build; the tree itself is not modified",
           "baseline_off_cmd": "cd /repo && go test -vet=off -count=1 -timeout 25m ./...", "source_commits": hooks_commits, "add_only": True},
 "engines": [{"name": "keto-sim", "path": "/verif/sim", "serves_properties": claimed,
              "kind_free_text": "deterministic simulation with fault injection: one seeded tape decides generated workloads, the release order of storage calls parked at the storage-API seam inside a testing/synctest bubble, storage order (uuid seam), and injected faults at the storage-API and SQL-driver seams; reference models (Zanzibar evaluator, multiset store, reachability, namespace versions) are the oracles; failures are minimised on the tape and written as replay files"}],
 "checks": checks,
 "not_applicable": na,
 "notes": "Driver: /verif/check (python3). Workers run with GOMAXPROCS=1 (required for replayable schedules, see DESIGN.md section 7). Known findings: /verif/known_findings.json. Fix commits in /repo start with 'fix:'. Which seeded change is caught by which check: SENSITIVITY.md (generated from seeded/*/meta.json).",
}
json.dump(m, open(os.path.join(ROOT, "MANIFEST.json"), "w"), indent=1)
print("claimed:", claimed)
print("not applicable / not claimed:", [x["property_id"] for x in na])
