module lockyield

go 1.25
