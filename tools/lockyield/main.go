// lockyield rewrites every mutex operation (X.Lock(), X.RLock(), X.Unlock(),
// X.RUnlock(), also in defer statements) in the non-test Go files below the
// given root directories into a call through the simulator's lock seam
// (package simlock), and writes the rewritten files plus a `go build -overlay`
// file into the output directory. The source tree itself is never modified.
//
//	lockyield -root /repo -out /verif/bin/overlay internal
//
// With no simulator hook installed simlock.Lock / simlock.Unlock just call the
// mutex method, so the instrumented build behaves like the original.
package main

import (
	"bytes"
	"encoding/json"
	"flag"
	"fmt"
	"go/ast"
	"go/parser"
	"go/printer"
	"go/token"
	"os"
	"path/filepath"
	"strconv"
	"strings"
)

const simlockPath = "github.com/ory/keto/verifsim/simlock"

func main() {
	root := flag.String("root", "/repo", "module root")
	out := flag.String("out", "", "output directory")
	var extra multi
	flag.Var(&extra, "file", "additional single file to instrument (absolute path, e.g. in the module cache); repeatable")
	flag.Parse()
	if *out == "" || flag.NArg() == 0 {
		fmt.Fprintln(os.Stderr, "usage: lockyield -root DIR -out DIR subdir...")
		os.Exit(2)
	}
	if err := os.RemoveAll(*out); err != nil {
		fatal(err)
	}
	if err := os.MkdirAll(*out, 0o755); err != nil {
		fatal(err)
	}
	overlay := map[string]string{}
	sites := 0
	for _, sub := range flag.Args() {
		err := filepath.Walk(filepath.Join(*root, sub), func(p string, info os.FileInfo, err error) error {
			if err != nil {
				return err
			}
			if info.IsDir() {
				if b := info.Name(); b == "e2e" || b == "testdata" || strings.HasPrefix(b, ".") {
					return filepath.SkipDir
				}
				return nil
			}
			if !strings.HasSuffix(p, ".go") || strings.HasSuffix(p, "_test.go") {
				return nil
			}
			src, err := os.ReadFile(p)
			if err != nil {
				return err
			}
			if !bytes.Contains(src, []byte("Lock()")) && !bytes.Contains(src, []byte("sync.Map")) && !bytes.Contains(src, []byte("atomic.")) {
				return nil
			}
			rel, _ := filepath.Rel(*root, p)
			res, n, err := rewrite(p, rel, src)
			if err != nil {
				return fmt.Errorf("%s: %w", p, err)
			}
			if n == 0 {
				return nil
			}
			dst := filepath.Join(*out, strings.ReplaceAll(rel, string(filepath.Separator), "__"))
			if err := os.WriteFile(dst, res, 0o644); err != nil {
				return err
			}
			overlay[p] = dst
			sites += n
			return nil
		})
		if err != nil {
			fatal(err)
		}
	}
	for _, p := range extra {
		src, err := os.ReadFile(p)
		if err != nil {
			fatal(err)
		}
		rel := filepath.Join(filepath.Base(filepath.Dir(p)), filepath.Base(p))
		res, n, err := rewrite(p, rel, src)
		if err != nil {
			fatal(fmt.Errorf("%s: %w", p, err))
		}
		if n == 0 {
			continue
		}
		dst := filepath.Join(*out, "extra__"+strings.ReplaceAll(rel, string(filepath.Separator), "__"))
		if err := os.WriteFile(dst, res, 0o644); err != nil {
			fatal(err)
		}
		overlay[p] = dst
		sites += n
	}
	js, _ := json.MarshalIndent(map[string]any{"Replace": overlay}, "", " ")
	if err := os.WriteFile(filepath.Join(*out, "overlay.json"), js, 0o644); err != nil {
		fatal(err)
	}
	fmt.Printf("lockyield: %d lock sites in %d files\n", sites, len(overlay))
}

type multi []string

func (m *multi) String() string     { return strings.Join(*m, ",") }
func (m *multi) Set(v string) error { *m = append(*m, v); return nil }

func fatal(err error) {
	fmt.Fprintln(os.Stderr, "lockyield:", err)
	os.Exit(2)
}

func rewrite(path, rel string, src []byte) ([]byte, int, error) {
	fset := token.NewFileSet()
	f, err := parser.ParseFile(fset, path, src, parser.ParseComments)
	if err != nil {
		return nil, 0, err
	}
	pkgNames := map[string]bool{}
	for _, im := range f.Imports {
		if im.Name != nil {
			pkgNames[im.Name.Name] = true
			continue
		}
		p, _ := strconv.Unquote(im.Path.Value)
		pkgNames[p[strings.LastIndex(p, "/")+1:]] = true
	}
	n := 0
	ast.Inspect(f, func(nd ast.Node) bool {
		call, ok := nd.(*ast.CallExpr)
		if !ok {
			return true
		}
		sel, ok := call.Fun.(*ast.SelectorExpr)
		if !ok {
			return true
		}
		if id, ok := sel.X.(*ast.Ident); ok && pkgNames[id.Name] && id.Obj == nil {
			return true
		}
		// operations on lock-free shared state (sync.Map, sync/atomic values): a
		// scheduling point in front of each, so that the steps of a non-atomic update
		// can be interleaved with readers. X.Load(k) becomes
		// verifsimlock.Y("site", X.Load)(k); Y yields (when a scheduler is installed)
		// and returns the method value it was given.
		switch sel.Sel.Name {
		case "Load", "Store", "LoadOrStore", "LoadAndDelete", "Delete", "Range", "Swap", "CompareAndSwap", "CompareAndDelete", "Clear":
			if len(call.Args) == 0 && sel.Sel.Name != "Load" && sel.Sel.Name != "Clear" {
				return true
			}
			site := fmt.Sprintf("%s:%d:%s", rel, fset.Position(call.Pos()).Line, sel.Sel.Name)
			call.Fun = &ast.CallExpr{
				Fun:  &ast.SelectorExpr{X: ast.NewIdent("verifsimlock"), Sel: ast.NewIdent("Y")},
				Args: []ast.Expr{&ast.BasicLit{Kind: token.STRING, Value: strconv.Quote(site)}, &ast.SelectorExpr{X: sel.X, Sel: ast.NewIdent(sel.Sel.Name)}},
			}
			n++
			return true
		}
		if len(call.Args) != 0 {
			return true
		}
		var try, fn string
		switch sel.Sel.Name {
		case "Lock":
			try, fn = "TryLock", "Lock"
		case "RLock":
			try, fn = "TryRLock", "Lock"
		case "Unlock", "RUnlock":
			fn = "Unlock"
		default:
			return true
		}
		site := fmt.Sprintf("%s:%d:%s", rel, fset.Position(call.Pos()).Line, sel.Sel.Name)
		args := []ast.Expr{&ast.BasicLit{Kind: token.STRING, Value: strconv.Quote(site)}}
		if try != "" {
			args = append(args, &ast.SelectorExpr{X: sel.X, Sel: ast.NewIdent(try)})
		}
		args = append(args, &ast.SelectorExpr{X: sel.X, Sel: ast.NewIdent(sel.Sel.Name)})
		call.Fun = &ast.SelectorExpr{X: ast.NewIdent("verifsimlock"), Sel: ast.NewIdent(fn)}
		call.Args = args
		n++
		return false
	})
	if n == 0 {
		return nil, 0, nil
	}
	// add the import as its own declaration right after the package clause's imports
	imp := &ast.GenDecl{Tok: token.IMPORT, Specs: []ast.Spec{&ast.ImportSpec{
		Name: ast.NewIdent("verifsimlock"), Path: &ast.BasicLit{Kind: token.STRING, Value: strconv.Quote(simlockPath)}}}}
	idx := 0
	for i, d := range f.Decls {
		if g, ok := d.(*ast.GenDecl); ok && g.Tok == token.IMPORT {
			idx = i + 1
		}
	}
	f.Decls = append(f.Decls[:idx], append([]ast.Decl{imp}, f.Decls[idx:]...)...)
	var buf bytes.Buffer
	if err := (&printer.Config{Mode: printer.UseSpaces | printer.TabIndent | printer.SourcePos, Tabwidth: 8}).Fprint(&buf, fset, f); err != nil {
		return nil, 0, err
	}
	return buf.Bytes(), n, nil
}
