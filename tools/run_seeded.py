#!/usr/bin/env python3
"""Runs every seeded change under /verif/seeded against the checks of the properties it breaks
(quick tier unless given) and records the outcome in its meta.json (key "results")."""
import json, os, subprocess, sys, time
ROOT = os.path.dirname(os.path.dirname(os.path.abspath(__file__)))
only = [a for a in sys.argv[1:] if not a.startswith("--")]
tier = "thorough" if "--thorough" in sys.argv else "quick"
for d in sorted(os.listdir(os.path.join(ROOT, "seeded"))):
    p = os.path.join(ROOT, "seeded", d)
    mp = os.path.join(p, "meta.json")
    if not os.path.isfile(mp) or (only and d not in only):
        continue
    meta = json.load(open(mp))
    patch = os.path.join(p, "patch.diff")
    props = ",".join(meta["breaks"])
    t0 = time.time()
    out = subprocess.run([os.path.join(ROOT, "tools", "mutate.sh"), patch, props, tier], capture_output=True, text=True).stdout
    res = {}
    for l in out.splitlines():
        w = l.split()
        if len(w) >= 2 and w[0] in ("CAUGHT", "MISSED", "TROUBLE"):
            res[w[1].rstrip(":")] = {"outcome": w[0], "detail": l[len(w[0]) + len(w[1]) + 2:][:400]}
    meta.setdefault("results", {})[tier] = {"ran": "tools/mutate.sh seeded/%s/patch.diff %s %s" % (d, props, tier), "checks": res, "wall_s": round(time.time() - t0, 1)}
    json.dump(meta, open(mp, "w"), indent=1)
    print(d, {k: v["outcome"] for k, v in res.items()}, flush=True)
