#!/bin/bash
# tools/mutate.sh <patch.diff> <PROP>[,PROP...] [tier]   - apply a change to /repo, run checks, undo it.
# Prints one line per property: CAUGHT / MISSED / TROUBLE.
set -u
patch=$(readlink -f "$1"); props=$2; tier=${3:-quick}
cd /verif
if ! git -C /repo diff --quiet; then echo "/repo has uncommitted changes"; exit 3; fi
if ! git -C /repo apply --check "$patch" 2>/dev/null; then echo "patch does not apply: $patch"; exit 3; fi
git -C /repo apply "$patch"
trap 'git -C /repo checkout -- . ; git -C /repo clean -fdq -- internal ketoapi cmd 2>/dev/null' EXIT
for p in ${props//,/ }; do
  out=$(./check $p $tier 2>&1); rc=$?
  if [ $rc -eq 1 ]; then echo "CAUGHT $p: $(echo "$out" | grep -m2 '^violation' | cut -c1-220 | tr '\n' ' ')";
  elif [ $rc -eq 0 ]; then echo "MISSED $p: $(echo "$out" | tail -1 | cut -c1-200)";
  else echo "TROUBLE $p (exit $rc): $(echo "$out" | tail -3 | cut -c1-300 | tr '\n' ' ')"; fi
done
