#!/usr/bin/env python3
"""Imports a sub-agent's seeded change into /verif/seeded/<id>/ after confirming, in a scratch worktree of /repo
outside /repo and /verif: (1) the patch applies and builds, (2) the pinned baseline suite (no tags) still passes every
stable test, (3) the demonstration passes WITHOUT the patch and fails WITH it.
usage: import_seeded.py <id> <prop> <patch> <demo_test.go> <pkgdir> <run-regex> <what> <needs>"""
import sys, os, subprocess, json, shutil, tempfile
sid, prop, patch, demo, pkg, run, what, needs = sys.argv[1:9]
env = dict(os.environ, GOFLAGS="-mod=mod", GOPROXY="off")
wt = tempfile.mkdtemp(prefix="seedchk-", dir="/tmp")
os.rmdir(wt)
def sh(cmd, cwd=wt, timeout=3600):
    return subprocess.run(cmd, shell=True, cwd=cwd, env=env, capture_output=True, text=True, errors='replace', timeout=timeout)
subprocess.run(["git", "-C", "/repo", "worktree", "add", "-q", wt, "HEAD"], check=True)
res = {"id": sid}
try:
    demo_dst = os.path.join(wt, pkg, "zz_seed_demo_test.go")
    shutil.copy(demo, demo_dst)
    cmd = "go test -tags sqlite -count=1 -run '%s' ./%s/" % (run, pkg)
    r0 = sh(cmd)
    res["demo_without_patch"] = "pass" if r0.returncode == 0 else "FAIL"
    ap = sh("git apply --check %s && git apply %s" % (patch, patch))
    if ap.returncode != 0:
        res["apply"] = "does not apply: " + ap.stderr[-300:]
        print(json.dumps(res)); sys.exit(1)
    r1 = sh(cmd)
    res["demo_with_patch"] = "fail" if r1.returncode != 0 else "PASSES"
    res["demo_with_patch_tail"] = (r1.stdout + r1.stderr)[-600:]
    os.remove(demo_dst)
    b = sh("go build ./...")
    res["build"] = "ok" if b.returncode == 0 else "FAILS " + b.stderr[-300:]
    # pinned baseline (no tags): every stable test still passes
    t = sh("go test -vet=off -count=1 -json -timeout 25m ./... 2>/dev/null; (cd proto && go test -vet=off -count=1 -json ./... 2>/dev/null)")
    passed = set()
    for l in t.stdout.splitlines():
        try:
            j = json.loads(l)
        except Exception:
            continue
        if j.get("Test") and j.get("Action") == "pass":
            passed.add(j["Package"] + "::" + j["Test"])
    stable = set(json.load(open("/root/.vp/BASELINE.json"))["stable_pass"])
    missing = sorted(stable - passed)
    res["baseline_missing"] = missing
    ok = res["demo_without_patch"] == "pass" and res["demo_with_patch"] == "fail" and res["build"] == "ok" and not missing
    res["confirmed"] = ok
    if ok:
        d = os.path.join("/verif/seeded", sid)
        os.makedirs(d, exist_ok=True)
        shutil.copy(patch, os.path.join(d, "patch.diff"))
        shutil.copy(demo, os.path.join(d, "demo_test.go"))
        meta = {"id": sid, "origin": "written by an independent sub-agent that saw only the property text and a scratch worktree of ory/keto",
                "breaks": prop.split(","), "what": what, "needs_to_manifest": needs,
                "demonstration": {"file": "demo_test.go", "place_in": pkg, "command": cmd},
                "confirmed": {"in": "scratch git worktree of /repo under /tmp (removed afterwards)",
                              "ran": ["git apply patch.diff", "go build ./...", cmd + "  (without patch: pass; with patch: fail)",
                                      "go test -vet=off -count=1 ./... (+ proto module): all 187 stable baseline tests pass with the patch"]}}
        json.dump(meta, open(os.path.join(d, "meta.json"), "w"), indent=1)
finally:
    subprocess.run(["git", "-C", "/repo", "worktree", "remove", "--force", wt])
print(json.dumps({k: v for k, v in res.items() if k != "demo_with_patch_tail"}))
