package sim

import (
	"fmt"
	"strings"

	"github.com/gofrs/uuid"

	"github.com/ory/keto/internal/relationtuple"
	"github.com/ory/keto/ketoapi"
)

// C16 – names survive the string-to-UUID mapping unchanged and unaliased
// (tier S + direct mapper round trips).

func init() { Props["C16"] = runC16 }

var long64k = strings.Repeat("long-name-0123456789abcdef-", 2500)

var advNames = []string{
	"", " ", "a", "A", "a ", " a", "é", "é", "ß", "SS", "ı", "İ",
	"😀", "😀😀", "\U0001F468‍\U0001F469‍\U0001F467", "שלום", "\u202eabc", "مرحبا",
	"tab\there", "line\nbreak", "\r\n", "\x01\x02", "\u00a0", "\ufeffbom",
	"N0", "N1", "r0", "r1", "o0", "u0", "null", "0", "-1", "%00", "%", "a%20b", "a+b", "a&b=c", "a#b", "a:b", "a@b", "(a)", "a/b", "../x", "'", "\"", "\\", "'; DROP TABLE keto_relation_tuples; --",
	"00000000-0000-0000-0000-000000000000", "ffffffff-ffff-ffff-ffff-ffffffffffff",
	// one uuid in the spellings uuid parsers accept: six different names
	"6ba7b810-9dad-11d1-80b4-00c04fd430c8", "6BA7B810-9DAD-11D1-80B4-00C04FD430C8", "{6ba7b810-9dad-11d1-80b4-00c04fd430c8}",
	"urn:uuid:6ba7b810-9dad-11d1-80b4-00c04fd430c8", "6ba7b8109dad11d180b400c04fd430c8", "6ba7b810-9dad-11d1-80b4-00c04fd430c8 ",
	// names that differ only in Unicode normalisation, case folding or width
	"e\u0301", "\u00e9", "\u212a", "K", "k", "\uff21", "straße", "strasse", "STRASSE", "ﬁ", "fi",
	// numbers in the spellings number parsers accept
	"1", "01", "1.0", "1e0", "+1", "0x1", "true", "True", "NULL", "nil", "undefined",
}

// prefixNames: names that share a long prefix and differ only near the end, with
// lengths around the powers of two a fixed-size buffer would plausibly have.
func prefixNames() []string {
	var out []string
	for _, L := range []int{63, 64, 65, 127, 128, 129, 239, 240, 241, 248, 255, 256, 257, 511, 512, 513, 1023, 1024, 1025} {
		b := []byte(strings.Repeat("prefix-0123456789-", L/18+1))[:L]
		out = append(out, string(b))
		b[L-1] = '#'
		out = append(out, string(b))
	}
	return out
}

func runC16(env *Env, rc *RunCtx) {
	t := rc.CaseTape
	sys := env.SysTier()
	env.Wipe()
	env.UseConfigCached(plainCfg, Limits{Depth: 100, Width: 1000})
	theGen.Reseed(uint64(t.Choose(1<<30)), t.Choose(3))
	// name pool of this run
	var pool []string
	for _, n := range advNames {
		if t.Bool(2, 3) {
			pool = append(pool, n)
		}
	}
	if t.Bool(1, 6) {
		pool = append(pool, long64k, long64k+"x")
	}
	if t.Bool(1, 4) {
		pn := prefixNames()
		for i := 0; i < 8; i++ {
			pool = append(pool, pn[t.Choose(len(pn))])
		}
		rc.Count("probe_names_sharing_a_long_prefix", 1)
	}
	extra := []int{0, 10, 60, 120, 260}[t.Choose(5)]
	for i := 0; i < extra; i++ {
		pool = append(pool, fmt.Sprintf("name-%d", i))
	}
	if len(pool) == 0 {
		pool = []string{"", "a"}
	}
	name := func() string { return pool[t.Choose(len(pool))] }
	B := []int{1, 2, 3, 49, 50, 51, 99, 100, 101, 150, 250}[t.Choose(11)]
	if rc.Tier == "quick" && B > 101 && t.Bool(1, 2) {
		B = 101
	}
	var batch []Tuple
	for i := 0; i < B; i++ {
		if i > 0 && t.Bool(1, 8) {
			batch = append(batch, batch[t.Choose(len(batch))])
			continue
		}
		x := Tuple{NS: pick(t, []string{"N0", "N1"}), Obj: name(), Rel: pick(t, []string{"r0", "r1", ""})}
		switch t.Choose(3) {
		case 0:
			x.Sub = Subject{ID: name()}
		case 1:
			x.Sub = Subject{ID: x.Obj} // the same string as object and as subject
		default:
			x.Sub = Subject{Set: &SetRef{NS: pick(t, []string{"N0", "N1"}), Obj: name(), Rel: pick(t, []string{"r0", ""})}}
		}
		batch = append(batch, x)
	}
	distinct := map[string]bool{}
	for _, x := range batch {
		distinct[x.Obj] = true
		if x.Sub.Set != nil {
			distinct[x.Sub.Set.Obj] = true
		} else {
			distinct[x.Sub.ID] = true
		}
	}
	w := func(extra map[string]any) map[string]any {
		m := map[string]any{"batch_size": B, "distinct_names": len(distinct)}
		var sm []string
		for i, x := range batch {
			if i >= 8 {
				break
			}
			s := x.String()
			if len(s) > 120 {
				s = s[:120] + "..."
			}
			sm = append(sm, fmt.Sprintf("%q", s))
		}
		m["first_tuples"] = sm
		for k, v := range extra {
			m[k] = v
		}
		return m
	}
	short := func(s string) string {
		if len(s) > 60 {
			return fmt.Sprintf("%q...(%d bytes)", s[:60], len(s))
		}
		return fmt.Sprintf("%q", s)
	}

	// 1. direct mapper round trip, position by position
	api := make([]*ketoapi.RelationTuple, len(batch))
	for i, x := range batch {
		api[i] = x.API()
	}
	its, err := env.Reg.Mapper().FromTuple(env.Ctx, api...)
	if err != nil {
		rc.Violate("mapper-error", "FromTuple", err.Error(), w(nil), -1, nil)
		return
	}
	back, err := env.Reg.Mapper().ToTuple(env.Ctx, its...)
	if err != nil {
		rc.Violate("mapper-error", "ToTuple", err.Error(), w(nil), -1, nil)
		return
	}
	rc.Rec.Execs++
	if len(back) != len(batch) {
		rc.Violate("roundtrip", "ToTuple", fmt.Sprintf("%d tuples in, %d out", len(batch), len(back)), w(nil), -1, nil)
		return
	}
	for i := range batch {
		g := fromAPI(back[i])
		if g.NS != batch[i].NS || g.Obj != batch[i].Obj || g.Rel != batch[i].Rel || !g.Sub.Equal(batch[i].Sub) {
			rc.Violate("roundtrip", "ToTuple", fmt.Sprintf("position %d: wrote %s, mapper returned %s", i, short(batch[i].String()), short(g.String())), w(nil), -1, nil)
			return
		}
	}
	// 2. Map(s) = Map(s') <=> s = s'
	var names []string
	for n := range distinct {
		names = append(names, n)
	}
	sortStrings(names)
	us, err := env.Reg.MappingManager().MapStringsToUUIDsReadOnly(env.Ctx, names...)
	if err != nil {
		rc.Violate("mapper-error", "MapStringsToUUIDsReadOnly", err.Error(), w(nil), -1, nil)
		return
	}
	seen := map[uuid.UUID]string{}
	for i, u := range us {
		if o, ok := seen[u]; ok && o != names[i] {
			rc.Violate("alias", "uuid", fmt.Sprintf("%s and %s map to the same UUID", short(o), short(names[i])), w(nil), -1, nil)
			return
		}
		seen[u] = names[i]
	}
	us2, _ := env.Reg.MappingManager().MapStringsToUUIDs(env.Ctx, names...)
	for i := range us {
		if us[i] != us2[i] {
			rc.Violate("alias", "uuid", fmt.Sprintf("%s maps to different UUIDs on two calls", short(names[i])), w(nil), -1, nil)
			return
		}
	}
	ss, err := env.Reg.MappingManager().MapUUIDsToStrings(env.Ctx, append(us, us...)...)
	if err != nil || len(ss) != 2*len(us) {
		rc.Violate("mapper-error", "MapUUIDsToStrings", fmt.Sprint(err, len(ss)), w(nil), -1, nil)
		return
	}
	for i := range ss {
		if ss[i] != names[i%len(names)] {
			rc.Violate("roundtrip", "MapUUIDsToStrings", fmt.Sprintf("position %d of %d: expected %s, got %s", i, len(ss), short(names[i%len(names)]), short(ss[i])), w(nil), -1, nil)
			return
		}
	}
	// 3. query and tree round trips
	for i := 0; i < 4 && i < len(batch); i++ {
		x := batch[t.Choose(len(batch))]
		aq := &ketoapi.RelationQuery{Namespace: &x.NS, Object: &x.Obj, Relation: &x.Rel}
		if x.Sub.Set != nil {
			aq.SubjectSet = &ketoapi.SubjectSet{Namespace: x.Sub.Set.NS, Object: x.Sub.Set.Obj, Relation: x.Sub.Set.Rel}
		} else {
			aq.SubjectID = &x.Sub.ID
		}
		iq, err := env.Reg.ReadOnlyMapper().FromQuery(env.Ctx, aq)
		if err != nil {
			rc.Violate("mapper-error", "FromQuery", err.Error(), w(nil), -1, nil)
			return
		}
		bq, err := env.Reg.ReadOnlyMapper().ToQuery(env.Ctx, iq)
		if err != nil {
			rc.Violate("mapper-error", "ToQuery", err.Error(), w(nil), -1, nil)
			return
		}
		ok := *bq.Namespace == x.NS && *bq.Object == x.Obj && *bq.Relation == x.Rel
		if x.Sub.Set != nil {
			ok = ok && bq.SubjectSet != nil && bq.SubjectID == nil && bq.SubjectSet.Object == x.Sub.Set.Obj && bq.SubjectSet.Namespace == x.Sub.Set.NS && bq.SubjectSet.Relation == x.Sub.Set.Rel
		} else {
			ok = ok && bq.SubjectID != nil && bq.SubjectSet == nil && *bq.SubjectID == x.Sub.ID
		}
		if !ok {
			rc.Violate("roundtrip", "ToQuery", fmt.Sprintf("query for %s came back differently", short(x.String())), w(nil), -1, nil)
			return
		}
	}
	{
		// a tree with one node per batch entry (subject set -> children)
		root := &relationtuple.Tree{Type: ketoapi.TreeNodeUnion, Subject: &relationtuple.SubjectSet{Namespace: "N0", Object: its[0].Object, Relation: "r0"}}
		lim := len(its)
		if lim > 120 {
			lim = 120
		}
		for i := 0; i < lim; i++ {
			root.Children = append(root.Children, &relationtuple.Tree{Type: ketoapi.TreeNodeLeaf, Subject: its[i].Subject})
		}
		tr, err := env.Reg.ReadOnlyMapper().ToTree(env.Ctx, root)
		if err != nil {
			rc.Violate("mapper-error", "ToTree", err.Error(), w(nil), -1, nil)
			return
		}
		if tr.Tuple.SubjectSet == nil || tr.Tuple.SubjectSet.Object != batch[0].Obj || len(tr.Children) != lim {
			rc.Violate("roundtrip", "ToTree", "root of the mapped tree differs", w(nil), -1, nil)
			return
		}
		for i := 0; i < lim; i++ {
			c := tr.Children[i].Tuple
			var g Subject
			if c.SubjectSet != nil {
				g.Set = &SetRef{NS: c.SubjectSet.Namespace, Obj: c.SubjectSet.Object, Rel: c.SubjectSet.Relation}
			} else if c.SubjectID != nil {
				g.ID = *c.SubjectID
			}
			if !g.Equal(batch[i].Sub) {
				rc.Violate("roundtrip", "ToTree", fmt.Sprintf("child %d: expected %s, got %s", i, short(batch[i].Sub.String()), short(g.String())), w(nil), -1, nil)
				return
			}
		}
	}
	env.Wipe()
	// 4. through the API: write the batch, list it back
	var ds []Delta
	for _, x := range batch {
		ds = append(ds, Delta{Insert: true, T: x})
	}
	var wr Resp
	how := t.Choose(3)
	switch how {
	case 0:
		wr = sys.Transact(ds)
	case 1:
		wr = sys.Patch(ds)
	default:
		for _, x := range batch {
			if wr = sys.Create(x); !wr.OK() {
				break
			}
		}
	}
	if !wr.OK() {
		rc.Violate("valid-rejected", "write", fmt.Sprintf("writing the batch failed: %s", wr), w(nil), -1, nil)
		return
	}
	size := []int{0, 1, 100, 101, 250}[t.Choose(5)]
	if size == 1 && B > 20 {
		size = 0
	}
	grpcT := t.Bool(1, 2)
	// optionally fail one mapping lookup statement: the read may fail, it may not
	// return an empty or foreign string
	k := 0
	if rc.Mode == "faults" {
		k = t.Range(1, 4)
	}
	theHub.Arm(k, L2IO)
	lr, got, _ := sys.ListAll(Query{}, size, grpcT)
	_, fired := theHub.Disarm()
	rc.Rec.Execs++
	if fired > 0 {
		rc.Count("fault_io", 1)
	}
	if !lr.OK() {
		if fired == 0 {
			rc.Violate("valid-rejected", "list", fmt.Sprintf("listing failed: %s", lr), w(nil), -1, nil)
			return
		}
		rc.Count("list_failed_under_fault", 1)
	} else if d := bagDiff(got, batch); d != "" {
		if len(d) > 600 {
			d = d[:600]
		}
		rc.Violate("names-changed", "list", fmt.Sprintf("listing after write (%d tuples, page size %d) differs: %s", B, size, d), w(map[string]any{"fault_fired": fired > 0}), -1, nil)
		return
	}
	// a query by one of the adversarial names, over REST (URL encoding) and gRPC
	x := batch[t.Choose(len(batch))]
	q := Query{NS: &x.NS, Obj: &x.Obj}
	for _, g := range []bool{false, true} {
		r, ts, _ := sys.ListAll(q, 0, g)
		if !r.OK() {
			rc.Violate("valid-rejected", "list", fmt.Sprintf("list by object %s failed: %s", short(x.Obj), r), w(nil), -1, nil)
			return
		}
		var want []Tuple
		for _, y := range batch {
			if q.Matches(y) {
				want = append(want, y)
			}
		}
		if d := bagDiff(ts, want); d != "" {
			if len(d) > 600 {
				d = d[:600]
			}
			rc.Violate("names-changed", "list-by-name", fmt.Sprintf("list by object %s differs: %s", short(x.Obj), d), w(nil), -1, nil)
			return
		}
	}
	// expand returns the written strings
	set := SetRef{NS: x.NS, Obj: x.Obj, Rel: x.Rel}
	_, tree := sys.ExpandREST(set, nil)
	ids := map[string]bool{}
	tree.leavesIDs(ids)
	wantIDs, _ := RefReach(batch, set, -1)
	if !sameSet(ids, wantIDs) {
		rc.Violate("names-changed", "expand", fmt.Sprintf("expand of %s: subject-id leaves differ from the written strings", short(fmt.Sprint(set))), w(nil), -1, nil)
		return
	}
	// Half of the relationships are deleted again (by value): the names of the
	// ones that stay - often the same strings, used in another role or another
	// relationship - are returned as they were written.
	if len(batch) >= 2 && rc.Mode != "faults" {
		var del []Delta
		gone := map[string]bool{}
		for _, x := range batch {
			if t.Bool(1, 2) && !gone[x.String()] {
				gone[x.String()] = true
				del = append(del, Delta{Insert: false, T: x})
			}
		}
		if len(del) > 0 {
			var dr Resp
			if t.Bool(1, 2) {
				dr = sys.Patch(del)
			} else {
				dr = sys.Transact(del)
			}
			if !dr.OK() {
				rc.Violate("valid-rejected", "delete", fmt.Sprintf("deleting %d of the written relationships failed: %s", len(del), dr), w(nil), -1, nil)
				return
			}
			var rest []Tuple
			for _, x := range batch {
				if !gone[x.String()] {
					rest = append(rest, x)
				}
			}
			_, got2, _ := sys.ListAll(Query{}, 0, t.Bool(1, 2))
			rc.Rec.Execs++
			rc.Count("probe_listing_after_partial_delete", 1)
			if d := bagDiff(got2, rest); d != "" {
				rc.Violate("names-changed", "list-after-delete", fmt.Sprintf("listing after deleting %d of %d relationships differs: %s", len(del), len(batch), d), w(nil), -1, nil)
				return
			}
		}
	}
	rc.Rec.CaseHash = fmt.Sprintf("%016x", fnv64(fmt.Sprint(batch), 0))
	rc.Rec.NonTrivial = len(distinct) >= 3
	if len(distinct) > 100 {
		rc.Count("probe_over_100_distinct_names", 1)
	}
	if B > 100 {
		rc.Count("probe_batch_over_100", 1)
	}
	if len(batch) != len(bag(batch)) {
		rc.Count("probe_repeats_in_batch", 1)
	}
	rc.Count("names", len(distinct))
	rc.Note(fmt.Sprintf("B=%d distinct=%d", B, len(distinct)))
	if rc.WantSample {
		rc.Rec.Sample = w(map[string]any{"write_via": []string{"grpc transact", "rest patch", "rest create"}[how], "list_page_size": size})
	}
}
