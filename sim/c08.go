package sim

import (
	"encoding/json"
	"fmt"
	"net/url"

	"github.com/ory/keto/ketoapi"
	rts "github.com/ory/keto/proto/ory/keto/relation_tuples/v1alpha2"
)

// C08 – all check transports agree with the engine and with each other.
//
//	mode ""            (tier S): engine vs REST GET/POST (mirror + openapi) vs gRPC vs batch entries
//	mode "batch-order" (tier E): BatchCheck inside a bubble, worker finishing order chosen by the tape

func init() { Props["C08"] = runC08 }

type batchEntry struct {
	T     Tuple
	Valid bool   // well-formed and all namespaces known
	Why   string // why invalid
}

func (s *Sys) BatchREST(ts []Tuple, depth *int) (Resp, []struct {
	Allowed bool   `json:"allowed"`
	Error   string `json:"error"`
}) {
	var arr []any
	for _, x := range ts {
		arr = append(arr, x.API())
	}
	return s.BatchRESTRaw(arr, depth)
}

// BatchRESTRaw posts a batch whose entries are given in their API form (which
// can express what Tuple cannot: an entry naming both kinds of subject).
func (s *Sys) BatchRESTRaw(arr []any, depth *int) (Resp, []struct {
	Allowed bool   `json:"allowed"`
	Error   string `json:"error"`
}) {
	b, _ := json.Marshal(map[string]any{"tuples": arr})
	v := url.Values{}
	if depth != nil {
		v.Set("max-depth", fmt.Sprint(*depth))
	}
	r := s.REST(s.ReadH, "POST", "/relation-tuples/batch/check", v, b)
	if !r.OK() {
		return r, nil
	}
	var body struct {
		Results []struct {
			Allowed bool   `json:"allowed"`
			Error   string `json:"error"`
		} `json:"results"`
	}
	if err := json.Unmarshal(r.Body, &body); err != nil {
		r.Status = -2
		return r, nil
	}
	return r, body.Results
}

func runC08(env *Env, rc *RunCtx) {
	if rc.Mode == "batch-order" {
		runC08Order(env, rc)
		return
	}
	t := rc.CaseTape
	sys := env.SysTier()
	c := GenCase(t, GenOpts{Enc: -1, Gadgets: true, MaxTuples: 14})
	// one case in six stores a relationship whose subject id is the EMPTY string
	// (a legal name): every encoding has to tell it from "no subject"
	var emptySub *Tuple
	if t.Bool(1, 6) {
		x := Tuple{NS: c.Query.NS, Obj: c.Query.Obj, Rel: c.Query.Rel, Sub: Subject{ID: ""}}
		c.Tuples = append(c.Tuples, x)
		emptySub = &x
		rc.Count("probe_empty_subject_id", 1)
	}
	rc.Rec.CaseHash = fmt.Sprintf("%016x", c.Hash())
	ref := RefCheck(c.Cfg, c.Tuples, c.Query)
	if ref.NonStratified || ref.RewriteCycle || 10*ref.Reachable+10 > c01Depth {
		rc.Rec.Skipped = "limits-could-bind"
		return
	}
	_, class, _, err := env.PrepCase(c, Limits{Depth: c01Depth, Width: 65535, BatchMax: 12, BatchPar: 3})
	if err != nil {
		env.T.Fatalf("harness: %v", err)
	}
	if class != "" {
		rc.Rec.Skipped = "config:" + class
		return
	}
	env.L1.pageSize.Store(0)
	known := map[string]bool{}
	for _, n := range c.Cfg.NS {
		known[n.Name] = true
	}
	// the tuple under test: the generated query, or a variant with arbitrary strings / unknown namespaces
	q := c.Query
	variant := t.Choose(6)
	switch variant {
	case 1:
		q.NS = "unknown-ns"
	case 2:
		q.Sub = Subject{Set: &SetRef{NS: "unknown-ns", Obj: "o", Rel: "r0"}}
	case 3:
		q.Obj = "never seen é\U0001F600 & ?#"
	case 4:
		if len(c.Tuples) > 0 {
			q = c.Tuples[t.Choose(len(c.Tuples))] // a stored relationship: allowed by direct lookup
		}
	}
	if emptySub != nil && t.Bool(2, 3) {
		q = *emptySub
	}
	unknownNS := !known[q.NS] || (q.Sub.Set != nil && !known[q.Sub.Set.NS])
	var depth *int
	// 1 and 2 are real limits (the search is cut short and every transport has to
	// report what the engine reports at that depth; at these two depths the engine's
	// result does not depend on the order in which its branches run)
	dchoice := []int{-99, 0, -1, 1 << 20, c01Depth, 1, 2}[t.Choose(7)]
	if dchoice != -99 {
		depth = &dchoice
	}
	gdepth := 0
	if depth != nil {
		gdepth = *depth
	}
	// pre-flight inside the scheduler bubble: a check that needs thousands of
	// storage calls (exponential re-evaluation of duplicated operands at depth
	// 1000) is not a hang, but it is not worth a transport comparison either
	cheap := func(x Tuple) bool {
		if !known[x.NS] || (x.Sub.Set != nil && !known[x.Sub.Set.NS]) || x.Sub.Nil {
			return true
		}
		its, err := env.Internal(x)
		if err != nil {
			return true
		}
		plan := NoFaults()
		plan.MaxSteps = 1500
		r := env.Exec(NewTape(Mix(rc.execSeed, 4242)), []*Request{{Kind: "check", Tuple: its[0]}}, plan)
		return r.Returned
	}
	if !cheap(q) {
		rc.Rec.Skipped = "too-expensive"
		return
	}
	// engine decision
	var D bool
	engineErr := ""
	if unknownNS {
		D = false
	} else {
		its, err := env.Internal(q)
		if err != nil {
			env.T.Fatalf("harness: map: %v", err)
		}
		res := env.Reg.PermissionEngine().CheckRelationTuple(env.Ctx, its[0], gdepth)
		if res.Err != nil {
			engineErr = res.Err.Error()
		}
		D = res.Membership.String() == "IsMember" && res.Err == nil
	}
	// a declared relation may be required: a relation keto does not know in a configured namespace is an engine error
	rc.Rec.Execs++
	w := func(extra map[string]any) map[string]any {
		d := c.Describe()
		d["tuple_under_test"] = q.String()
		d["max_depth_param"] = dchoice
		d["engine"] = map[string]any{"allowed": D, "err": engineErr}
		for k, v := range extra {
			d[k] = v
		}
		return d
	}
	if unknownNS {
		rc.Count("probe_unknown_namespace", 1)
	}
	if D {
		rc.Count("engine_allowed", 1)
	} else {
		rc.Count("engine_denied", 1)
	}
	for _, v := range []string{"get", "post", "get-openapi", "post-openapi"} {
		r, a := sys.CheckREST(v, q, depth)
		rc.Rec.Execs++
		mirror := v == "get" || v == "post"
		if r.Panic != "" {
			rc.Violate("panic", v, r.Panic, w(nil), -1, nil)
			return
		}
		if engineErr != "" {
			if r.OK() && a != nil && *a {
				rc.Violate("transport-disagrees", v, fmt.Sprintf("engine returned an error, %s answered allowed", v), w(map[string]any{"response": r.String()}), -1, nil)
				return
			}
			continue
		}
		if a == nil {
			if unknownNS && r.ClientError() {
				continue // refusing an unknown namespace with a client error is "not allowed"
			}
			rc.Violate("transport-disagrees", v, fmt.Sprintf("%s gave no decision: %s; engine says allowed=%v", v, r, D), w(map[string]any{"response": r.String()}), -1, nil)
			return
		}
		if *a != D {
			rc.Violate("transport-disagrees", v, fmt.Sprintf("%s says allowed=%v, engine says %v", v, *a, D), w(map[string]any{"response": r.String()}), -1, nil)
			return
		}
		want := 200
		if mirror && !D {
			want = 403
		}
		if r.Status != want {
			rc.Violate("status-mirror", v, fmt.Sprintf("%s answered HTTP %d for allowed=%v (expected %d)", v, r.Status, D, want), w(map[string]any{"response": r.String()}), -1, nil)
			return
		}
	}
	{
		r, a := sys.CheckGRPC(q, gdepth)
		rc.Rec.Execs++
		if engineErr == "" {
			if a == nil {
				if !(unknownNS && r.ClientError()) {
					rc.Violate("transport-disagrees", "grpc", fmt.Sprintf("gRPC Check gave no decision: %s; engine says allowed=%v", r, D), w(nil), -1, nil)
					return
				}
			} else if *a != D {
				rc.Violate("transport-disagrees", "grpc", fmt.Sprintf("gRPC Check says allowed=%v, engine says %v", *a, D), w(nil), -1, nil)
				return
			}
		} else if a != nil && *a {
			rc.Violate("transport-disagrees", "grpc", "engine returned an error, gRPC Check answered allowed", w(nil), -1, nil)
			return
		}
	}
	// batches: t at a tape-chosen index among valid, invalid, duplicate and unknown-namespace entries
	n := t.Range(1, 9)
	idx := t.Choose(n)
	entries := make([]batchEntry, n)
	for i := range entries {
		if i == idx {
			entries[i] = batchEntry{T: q, Valid: !unknownNS}
			continue
		}
		switch t.Choose(8) {
		case 6, 7:
			// an "evil twin": a different relationship whose textual rendering looks the
			// same (a subject id spelled like a subject set, or the other way round)
			x := q
			if t.Bool(1, 2) && len(c.Tuples) > 0 {
				x = c.Tuples[t.Choose(len(c.Tuples))]
			}
			if x.Sub.Set != nil {
				id := fmt.Sprintf("%s:%s#%s", x.Sub.Set.NS, x.Sub.Set.Obj, x.Sub.Set.Rel)
				if t.Bool(1, 3) {
					id = "(" + id + ")"
				}
				x.Sub = Subject{ID: id}
			} else if !x.Sub.Nil {
				// a subject set whose rendering equals an id "a:b#c" only exists if the id has that
				// shape; use an id that does, and its subject-set twin elsewhere in the batch
				x.Sub = Subject{ID: c.Query.NS + ":" + c.Query.Obj + "#" + c.Query.Rel}
			}
			ok := known[x.NS] && !x.Sub.Nil
			entries[i] = batchEntry{T: x, Valid: ok, Why: "unknown namespace"}
			rc.Count("probe_evil_twin_entries", 1)
		case 0:
			entries[i] = batchEntry{T: Tuple{NS: "unknown-ns", Obj: "o", Rel: "r0", Sub: Subject{ID: "u0"}}, Why: "unknown namespace"}
		case 1:
			x := c.Query
			x.Sub = Subject{Nil: true}
			entries[i] = batchEntry{T: x, Why: "no subject"}
		case 2:
			entries[i] = batchEntry{T: q, Valid: !unknownNS} // duplicate of the tuple under test
		default:
			x := c.Query
			if len(c.Tuples) > 0 && t.Bool(1, 2) {
				x = c.Tuples[t.Choose(len(c.Tuples))]
			} else {
				x.Sub = Subject{ID: pick(t, []string{"u0", "u1", "u2"})}
			}
			entries[i] = batchEntry{T: x, Valid: true}
		}
	}
	// single-check decision of every valid entry (through the openapi endpoint, already compared above for q)
	single := make([]*bool, n)
	for _, e := range entries {
		if e.Valid && !cheap(e.T) {
			rc.Rec.Skipped = "too-expensive"
			return
		}
	}
	for i, e := range entries {
		if !e.Valid {
			continue
		}
		_, a := sys.CheckREST("post-openapi", e.T, depth)
		single[i] = a
	}
	var bt []Tuple
	for _, e := range entries {
		bt = append(bt, e.T)
	}
	desc := func() []string {
		var out []string
		for i, e := range entries {
			s := fmt.Sprintf("%d: %s", i, e.T)
			if !e.Valid {
				s += " [" + e.Why + "]"
			}
			out = append(out, s)
		}
		return out
	}
	checkBatch := func(tr string, allowed []bool, errs []string) bool {
		if len(allowed) != n {
			rc.Violate("batch-shape", tr, fmt.Sprintf("%d tuples in, %d results out", n, len(allowed)), w(map[string]any{"batch": desc()}), -1, nil)
			return false
		}
		for i, e := range entries {
			if !e.Valid {
				if allowed[i] {
					rc.Violate("batch-entry", tr, fmt.Sprintf("entry %d (%s) is reported allowed", i, e.Why), w(map[string]any{"batch": desc(), "allowed": allowed, "errors": errs}), -1, nil)
					return false
				}
				continue
			}
			if single[i] == nil {
				continue
			}
			if allowed[i] != *single[i] || (errs[i] != "" && engineErr == "") {
				rc.Violate("batch-entry", tr, fmt.Sprintf("entry %d (%s): batch says allowed=%v error=%q, the single check says %v (a bad entry elsewhere must not affect it)", i, e.T, allowed[i], errs[i], *single[i]), w(map[string]any{"batch": desc(), "allowed": allowed, "errors": errs}), -1, nil)
				return false
			}
		}
		return true
	}
	{
		r, res := sys.BatchREST(bt, depth)
		rc.Rec.Execs++
		if res == nil {
			rc.Violate("batch-rejected", "rest", fmt.Sprintf("batch of %d (limit 12) was rejected as a whole: %s", n, r), w(map[string]any{"batch": desc()}), -1, nil)
			return
		}
		al, er := make([]bool, len(res)), make([]string, len(res))
		for i, x := range res {
			al[i], er[i] = x.Allowed, x.Error
		}
		if !checkBatch("rest", al, er) {
			return
		}
		// one more entry, well-formed JSON that names BOTH a subject id and a subject
		// set, at a tape-chosen index: whatever the server makes of it (the single
		// check is asked), the batch is answered and every other entry keeps its result
		if t.Bool(1, 3) {
			both := q.API()
			if both.SubjectSet != nil || q.Sub.Nil {
				id := pick(t, []string{"u0", "u1", ""})
				both.SubjectID = &id
			}
			if both.SubjectSet == nil {
				both.SubjectSet = &ketoapi.SubjectSet{Namespace: q.NS, Object: q.Obj, Relation: q.Rel}
			}
			pos := t.Choose(n + 1)
			// whichever of the two subjects the server goes by, the check has to be one
			// that is worth a comparison (see cheap above)
			asID, asSet := q, q
			asID.Sub = Subject{ID: *both.SubjectID}
			asSet.Sub = Subject{Set: &SetRef{NS: both.SubjectSet.Namespace, Obj: both.SubjectSet.Object, Rel: both.SubjectSet.Relation}}
			if !cheap(asID) || !cheap(asSet) {
				rc.Rec.Skipped = "too-expensive"
				return
			}
			var arr []any
			for i, x := range bt {
				if i == pos {
					arr = append(arr, both)
				}
				arr = append(arr, x.API())
			}
			if pos == n {
				arr = append(arr, both)
			}
			var sa *bool
			{
				v := url.Values{}
				if depth != nil {
					v.Set("max-depth", fmt.Sprint(*depth))
				}
				b, _ := json.Marshal(both)
				sr := sys.REST(sys.ReadH, "POST", "/relation-tuples/check/openapi", v, b)
				var cb checkBody
				if sr.Panic == "" && sr.Status == 200 && json.Unmarshal(sr.Body, &cb) == nil {
					sa = &cb.Allowed
				}
			}
			r2, res2 := sys.BatchRESTRaw(arr, depth)
			rc.Rec.Execs++
			rc.Count("probe_entry_with_both_subject_kinds", 1)
			bd := func() map[string]any {
				return w(map[string]any{"batch": desc(), "extra_entry_index": pos, "extra_entry": both})
			}
			if res2 == nil {
				rc.Violate("batch-rejected", "rest", fmt.Sprintf("batch of %d with one entry naming both a subject id and a subject set was rejected as a whole: %s", n+1, r2), bd(), -1, nil)
				return
			}
			if len(res2) != n+1 {
				rc.Violate("batch-shape", "rest", fmt.Sprintf("%d tuples in, %d results out", n+1, len(res2)), bd(), -1, nil)
				return
			}
			for i := range res2 {
				j := i
				if i == pos {
					if (sa == nil && res2[i].Allowed) || (sa != nil && res2[i].Error == "" && res2[i].Allowed != *sa) {
						rc.Violate("batch-entry", "rest", fmt.Sprintf("entry %d names both kinds of subject: batch says allowed=%v error=%q, the single check says %v", i, res2[i].Allowed, res2[i].Error, sa), bd(), -1, nil)
						return
					}
					continue
				}
				if i > pos {
					j = i - 1
				}
				if res2[i].Allowed != al[j] || (res2[i].Error == "") != (er[j] == "") {
					rc.Violate("batch-entry", "rest", fmt.Sprintf("entry %d (%s): allowed=%v error=%q without, allowed=%v error=%q with an entry naming both kinds of subject elsewhere in the batch", j, entries[j].T, al[j], er[j], res2[i].Allowed, res2[i].Error), bd(), -1, nil)
					return
				}
			}
		}
	}
	{
		req := &rts.BatchCheckRequest{MaxDepth: int32(gdepth)}
		for _, x := range bt {
			req.Tuples = append(req.Tuples, x.Proto())
		}
		res, err := sys.Check.BatchCheck(sys.ctx(), req)
		rc.Rec.Execs++
		if err != nil {
			rc.Violate("batch-rejected", "grpc", fmt.Sprintf("batch of %d (limit 12) was rejected as a whole: %v", n, err), w(map[string]any{"batch": desc()}), -1, nil)
			return
		}
		al, er := make([]bool, len(res.Results)), make([]string, len(res.Results))
		for i, x := range res.Results {
			al[i], er[i] = x.Allowed, x.Error
		}
		if !checkBatch("grpc", al, er) {
			return
		}
	}
	// over the limit: rejected as a client error
	if t.Bool(1, 6) {
		var big []Tuple
		for i := 0; i < 13; i++ {
			big = append(big, c.Query)
		}
		if r, res := sys.BatchREST(big, nil); res != nil || !r.ClientError() {
			rc.Violate("batch-limit", "rest", fmt.Sprintf("batch of 13 with limit 12 answered %s", r), w(nil), -1, nil)
			return
		}
		rc.Count("probe_batch_over_limit", 1)
	}
	nb := 0
	for _, e := range entries {
		if !e.Valid {
			nb++
		}
	}
	if nb > 0 && nb < n {
		rc.Count("probe_mixed_batch", 1)
	}
	rc.Rec.NonTrivial = ref.Hops+ref.RewriteEdges >= 1
	rc.Note(fmt.Sprintf("%s D=%v", rc.Rec.CaseHash, D))
	if rc.WantSample {
		rc.Rec.Sample = w(map[string]any{"batch": desc()})
	}
}

// tier E: batch entries are distinct queries with individually known answers;
// the parallelisation limit is a knob and the order in which the workers'
// storage calls are released (hence the order in which they finish) is chosen
// by the tape. results[i] must be the answer for tuples[i].
func runC08Order(env *Env, rc *RunCtx) {
	t := rc.CaseTape
	c := GenCase(t, GenOpts{Enc: -1, Gadgets: true, MaxTuples: 14})
	rc.Rec.CaseHash = fmt.Sprintf("%016x", c.Hash())
	par := t.Range(1, 6)
	_, class, _, err := env.PrepCase(c, Limits{Depth: c01Depth, Width: 65535, BatchMax: 12, BatchPar: par})
	if err != nil {
		env.T.Fatalf("harness: %v", err)
	}
	if class != "" {
		rc.Rec.Skipped = "config:" + class
		return
	}
	n := t.Range(2, 8)
	var qs []Tuple
	var want []bool
	subs := []Subject{{ID: "u0"}, {ID: "u1"}, {ID: "u2"}, c.Query.Sub}
	for len(qs) < n {
		x := c.Query
		if len(c.Tuples) > 0 && t.Bool(1, 2) {
			y := c.Tuples[t.Choose(len(c.Tuples))]
			x.NS, x.Obj, x.Rel = y.NS, y.Obj, y.Rel
		}
		x.Sub = subs[t.Choose(len(subs))]
		ref := RefCheck(c.Cfg, c.Tuples, x)
		if ref.NonStratified || ref.RewriteCycle || 10*ref.Reachable+10 > c01Depth {
			rc.Rec.Skipped = "limits-could-bind"
			return
		}
		qs = append(qs, x)
		want = append(want, ref.Allowed)
	}
	var api []*ketoapi.RelationTuple
	for _, x := range qs {
		api = append(api, x.API())
		if _, err := env.Internal(x); err != nil {
			env.T.Fatalf("harness: %v", err)
		}
	}
	mixed := false
	for i := range want {
		if want[i] != want[0] {
			mixed = true
		}
	}
	rc.Rec.NonTrivial = mixed
	if mixed {
		rc.Count("probe_mixed_answers", 1)
	}
	nExec := execsFor(rc.Tier, 3, 10)
	for e := 0; e < nExec; e++ {
		if rc.SkipExec(e) {
			continue
		}
		et := rc.ExecTape(e)
		r := env.Exec(et, []*Request{{Kind: "batch", Batch: api}}, NoFaults())
		rc.Rec.Execs++
		rc.AddSchedule(r.TraceHash)
		if r.MaxParked >= 2 {
			rc.Count("probe_workers_in_flight", 1)
		}
		rc.Note(fmt.Sprintf("e=%d outs=%v", e, r.Outs))
		w := func() map[string]any {
			d := c.Describe()
			var b []string
			for i, x := range qs {
				b = append(b, fmt.Sprintf("%d: %s (reference allowed=%v)", i, x, want[i]))
			}
			d["batch"] = b
			d["parallelization_limit"] = par
			d["results"] = r.Outs
			d["schedule"] = r.Trace
			return d
		}
		if !r.Returned && r.Outcome == DriveStepLimit {
			rc.Count("inconclusive_step_limit", 1)
			return
		}
		if !r.Returned || r.BatchErr != "" || len(r.Outs) != n {
			rc.Violate("batch-shape", "engine", fmt.Sprintf("BatchCheck returned=%v err=%q with %d results for %d tuples", r.Returned, r.BatchErr, len(r.Outs), n), w(), e, et)
			return
		}
		for i, o := range r.Outs {
			if o.Err != "" {
				if want[i] {
					rc.Violate("batch-entry", "engine", fmt.Sprintf("entry %d failed: %s", i, o.Err), w(), e, et)
					return
				}
				continue
			}
			if o.Allowed() != want[i] {
				rc.Violate("batch-entry", "engine", fmt.Sprintf("results[%d] says allowed=%v but the answer for tuples[%d] is %v (slot mix-up or interference)", i, o.Allowed(), i, want[i]), w(), e, et)
				return
			}
		}
	}
}
