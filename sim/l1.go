package sim

import (
	"context"
	"fmt"
	"sync"
	"sync/atomic"

	"github.com/gofrs/uuid"

	"github.com/ory/keto/internal/check"
	"github.com/ory/keto/internal/driver"
	"github.com/ory/keto/internal/expand"
	"github.com/ory/keto/internal/relationtuple"
	"github.com/ory/keto/internal/x"
)

// L1: the storage-API seam. The wrappers sit between the real engines /
// handlers and the real sql.Persister / sql.Traverser. When a scheduler is
// installed every call parks before it enters the persister (holding no lock);
// otherwise calls pass straight through.

type l1 struct {
	cur   atomic.Pointer[Sched]
	names *nameTable
	// page size knob for GetRelationTuples issued *by the engines* (0 = keto default)
	pageSize atomic.Int64
	calls    atomic.Int64
}

type nameTable struct {
	mu sync.RWMutex
	m  map[uuid.UUID]string
}

func (n *nameTable) put(u uuid.UUID, s string) {
	n.mu.Lock()
	n.m[u] = s
	n.mu.Unlock()
}
func (n *nameTable) get(u uuid.UUID) string {
	n.mu.RLock()
	defer n.mu.RUnlock()
	if s, ok := n.m[u]; ok {
		return s
	}
	return "?" + u.String()[:8]
}
func (n *nameTable) reset() {
	n.mu.Lock()
	n.m = map[uuid.UUID]string{}
	n.mu.Unlock()
}

func (l *l1) subj(s relationtuple.Subject) string {
	switch v := s.(type) {
	case *relationtuple.SubjectID:
		return l.names.get(v.ID)
	case *relationtuple.SubjectSet:
		return fmt.Sprintf("(%s:%s#%s)", v.Namespace, l.names.get(v.Object), v.Relation)
	case nil:
		return "<nil>"
	}
	return "?"
}

func (l *l1) tup(t *relationtuple.RelationTuple) string {
	if t == nil {
		return "<nil>"
	}
	return fmt.Sprintf("%s:%s#%s@%s", t.Namespace, l.names.get(t.Object), t.Relation, l.subj(t.Subject))
}

func (l *l1) qry(q *relationtuple.RelationQuery) string {
	s := ""
	if q.Namespace != nil {
		s += *q.Namespace
	} else {
		s += "*"
	}
	s += ":"
	if q.Object != nil {
		s += l.names.get(*q.Object)
	} else {
		s += "*"
	}
	s += "#"
	if q.Relation != nil {
		s += *q.Relation
	} else {
		s += "*"
	}
	s += "@"
	if q.Subject != nil {
		s += l.subj(q.Subject)
	} else {
		s += "*"
	}
	return s
}

func (l *l1) enter(ctx context.Context, op, key string) (context.Context, error) {
	l.calls.Add(1)
	if s := l.cur.Load(); s != nil {
		err, late := s.Enter(ctx, op, op+" "+key)
		if late {
			// the storage round trip completed although the context was cancelled meanwhile
			return context.WithoutCancel(ctx), nil
		}
		return ctx, err
	}
	return ctx, nil
}

type l1Manager struct {
	l     *l1
	inner relationtuple.Manager
}

func (m *l1Manager) GetRelationTuples(ctx context.Context, query *relationtuple.RelationQuery, options ...x.PaginationOptionSetter) ([]*relationtuple.RelationTuple, string, error) {
	po := x.GetPaginationOptions(options...)
	tok := ""
	if po.Token != "" {
		tok = " tok"
	}
	ctx, err := m.l.enter(ctx, "list", m.l.qry(query)+tok)
	if err != nil {
		return nil, "", err
	}
	if ps := int(m.l.pageSize.Load()); ps > 0 && po.Size == 0 {
		options = append(options, x.WithSize(ps))
	}
	return m.inner.GetRelationTuples(ctx, query, options...)
}

func (m *l1Manager) ExistsRelationTuples(ctx context.Context, query *relationtuple.RelationQuery) (bool, error) {
	ctx, err := m.l.enter(ctx, "exists", m.l.qry(query))
	if err != nil {
		return false, err
	}
	return m.inner.ExistsRelationTuples(ctx, query)
}

func (m *l1Manager) WriteRelationTuples(ctx context.Context, rs ...*relationtuple.RelationTuple) error {
	ctx, err := m.l.enter(ctx, "write", fmt.Sprint(len(rs)))
	if err != nil {
		return err
	}
	return m.inner.WriteRelationTuples(ctx, rs...)
}

func (m *l1Manager) DeleteRelationTuples(ctx context.Context, rs ...*relationtuple.RelationTuple) error {
	ctx, err := m.l.enter(ctx, "delete", fmt.Sprint(len(rs)))
	if err != nil {
		return err
	}
	return m.inner.DeleteRelationTuples(ctx, rs...)
}

func (m *l1Manager) DeleteAllRelationTuples(ctx context.Context, query *relationtuple.RelationQuery) error {
	ctx, err := m.l.enter(ctx, "deleteall", m.l.qry(query))
	if err != nil {
		return err
	}
	return m.inner.DeleteAllRelationTuples(ctx, query)
}

func (m *l1Manager) TransactRelationTuples(ctx context.Context, ins []*relationtuple.RelationTuple, del []*relationtuple.RelationTuple) error {
	ctx, err := m.l.enter(ctx, "transact", fmt.Sprintf("%d/%d", len(ins), len(del)))
	if err != nil {
		return err
	}
	return m.inner.TransactRelationTuples(ctx, ins, del)
}

type l1Traverser struct {
	l     *l1
	inner relationtuple.Traverser
}

func (t *l1Traverser) TraverseSubjectSetExpansion(ctx context.Context, tuple *relationtuple.RelationTuple) ([]*relationtuple.TraversalResult, error) {
	ctx, err := t.l.enter(ctx, "expand", t.l.tup(tuple))
	if err != nil {
		return nil, err
	}
	return t.inner.TraverseSubjectSetExpansion(ctx, tuple)
}

func (t *l1Traverser) TraverseSubjectSetRewrite(ctx context.Context, tuple *relationtuple.RelationTuple, css []string) ([]*relationtuple.TraversalResult, error) {
	ctx, err := t.l.enter(ctx, "rewrite", fmt.Sprintf("%s %v", t.l.tup(tuple), css))
	if err != nil {
		return nil, err
	}
	return t.inner.TraverseSubjectSetRewrite(ctx, tuple, css)
}

// simDeps puts the L1 seam under the real engines and handlers. Everything
// else (config, namespace manager, mapper, logger, tracer, writer, persister
// for transactions and mapping) is the real registry.
type simDeps struct {
	*driver.RegistryDefault
	mgr  *l1Manager
	trav *l1Traverser
	ce   *check.Engine
	ee   *expand.Engine
}

func newSimDeps(reg *driver.RegistryDefault, l *l1) *simDeps {
	d := &simDeps{RegistryDefault: reg}
	d.mgr = &l1Manager{l: l, inner: reg.RelationTupleManager()}
	d.trav = &l1Traverser{l: l, inner: reg.Traverser()}
	d.ce = check.NewEngine(d)
	d.ee = expand.NewEngine(d)
	return d
}

func (d *simDeps) RelationTupleManager() relationtuple.Manager { return d.mgr }
func (d *simDeps) Traverser() relationtuple.Traverser          { return d.trav }
func (d *simDeps) PermissionEngine() *check.Engine             { return d.ce }
func (d *simDeps) ExpandEngine() *expand.Engine                { return d.ee }
