package sim

import (
	"bytes"
	"context"
	"encoding/json"
	"fmt"
	"math"
	"net/http"
	"net/http/httptest"
	"sort"
	"strings"

	"github.com/julienschmidt/httprouter"
	"github.com/ory/keto/internal/check"
	"github.com/ory/keto/internal/x"
	"github.com/ory/keto/ketoapi"
)

// C15 – every check terminates, honours cancellation and releases its
// goroutines (tier E).
//
// Data: expansion cycles, recursive permissions (self and mutual, through ||,
// && and !), parent cycles under traverse, nodes wider than the width limit.
// For each case: (a) fault-free; (b) cancellation before start and after the
// j-th storage call for every j; (c) storage failure at every k.

func init() { Props["C15"] = runC15 }

// rewriteSize counts the leaves of a permission expression.
func rewriteSize(e *Expr) int {
	if e == nil {
		return 0
	}
	if len(e.Children) == 0 {
		return 1
	}
	n := 0
	for _, c := range e.Children {
		n += rewriteSize(c)
	}
	return n
}

func runC15(env *Env, rc *RunCtx) {
	t := rc.CaseTape
	depth := t.Range(1, 5)
	width := []int{1, 2, 3, 5, 100}[t.Weighted(3, 3, 3, 2, 1)]
	wide := 0
	if t.Bool(1, 4) {
		wide = t.Range(2, 7)
	}
	c := GenCase(t, GenOpts{Enc: -1, AllowRecursion: true, Gadgets: true, MaxTuples: 18, WideNode: wide})
	// one run in forty: a node with a thousand or more subject sets (sizes around
	// the powers of ten and two an internal page size would plausibly be), none
	// of which leads to the subject, under a small width limit: the check has to
	// page through all of them inside ONE storage call and come back
	wideGadget := false
	if t.Bool(1, 40) {
		wideGadget = true
		k := []int{999, 1000, 1001, 1024, 2000, 2001, 2048, 3001}[t.Choose(8)]
		c.Cfg = plainCfg
		c.Tuples = nil
		for i := 0; i < k; i++ {
			c.Tuples = append(c.Tuples, Tuple{NS: "N0", Obj: "wide", Rel: "r0", Sub: Subject{Set: &SetRef{NS: "N0", Obj: fmt.Sprintf("g%d", i), Rel: "r0"}}})
		}
		c.Tuples = append(c.Tuples, Tuple{NS: "N0", Obj: "g1", Rel: "r0", Sub: Subject{ID: "somebody-else"}})
		c.Query = Tuple{NS: "N0", Obj: "wide", Rel: "r0", Sub: Subject{ID: "u0"}}
		c.Conforming = false
		width = []int{2, 3, 5}[t.Choose(3)]
		if depth < 2 {
			depth = 2
		}
		rc.Count("probe_node_with_1000_plus_subject_sets", 1)
	}
	rc.Rec.CaseHash = fmt.Sprintf("%016x", c.Hash()^uint64(depth*131+width))
	ref := RefCheck(c.Cfg, c.Tuples, c.Query)
	// bound on storage calls, in the quantities the property names
	rw := 0
	for _, n := range c.Cfg.NS {
		for _, r := range n.Rels {
			if s := rewriteSize(r.Rewrite); s > rw {
				rw = s
			}
		}
	}
	f := width
	if ref.MaxFanout > f && !wideGadget {
		// (in the wide gadget the engine follows at most `width` of the subject sets)
		f = ref.MaxFanout
	}
	B := math.Pow(float64((f+1)*(rw+2)), float64(depth+1))
	if B > 1e6 {
		rc.Rec.Skipped = "bound-too-large"
		return
	}
	bound := int(B)
	// one case in five goes through BatchCheck: the same tuple 2-10 times, more
	// entries than workers in most of them (cancellation has to stop the feeding of
	// the workers as well as the workers)
	batchN, batchPar := 0, 5
	if t.Bool(1, 5) {
		batchN = []int{2, 6, 7, 10}[t.Choose(4)]
		batchPar = []int{1, 2, 5}[t.Choose(3)]
		bound *= batchN
		rc.Count("probe_batch_entry_point", 1)
	}
	// one case in four of the others enters through the REST check handlers (the
	// request context is what net/http cancels when the client goes away)
	restVariant := -1
	if batchN == 0 && t.Bool(1, 4) {
		restVariant = t.Choose(4)
		rc.Count("probe_rest_entry_point", 1)
	}
	// one case in three runs on a connection pool of one
	if t.Bool(1, 3) {
		env.SetPool(1)
		defer env.SetPool(0)
		rc.Count("probe_connection_pool_of_one", 1)
	}
	q, class, _, err := env.PrepCase(c, Limits{Depth: depth, Width: width, BatchMax: 10, BatchPar: batchPar})
	if err != nil {
		env.T.Fatalf("harness: %v", err)
	}
	if class != "" {
		rc.Rec.Skipped = "config:" + class
		return
	}
	rc.Rec.NonTrivial = ref.Hops+ref.RewriteEdges >= 2
	if ref.RewriteCycle {
		rc.Count("probe_rewrite_cycle", 1)
	}
	if ref.MaxFanout > width {
		rc.Count("probe_wider_than_limit", 1)
	}
	reqDepth := 0
	apiQ := c.Query.API()
	var restH http.Handler
	if restVariant >= 0 {
		rr := &x.ReadRouter{Router: httprouter.New()}
		check.NewHandler(env.Deps).RegisterReadRoutes(rr)
		restH = rr
	}
	mk := func() []*Request {
		if restVariant >= 0 {
			return []*Request{{Kind: "fn", Fn: func(ctx context.Context) any {
				target := "/relation-tuples/check"
				if restVariant >= 2 {
					target += "/openapi"
				}
				var req *http.Request
				if restVariant%2 == 0 {
					req = httptest.NewRequest("GET", "http://keto.sim"+target+"?"+tupleURL(c.Query).Encode(), http.NoBody)
				} else {
					b, _ := json.Marshal(apiQ)
					req = httptest.NewRequest("POST", "http://keto.sim"+target, bytes.NewReader(b))
				}
				rec := httptest.NewRecorder()
				restH.ServeHTTP(rec, req.WithContext(ctx))
				var cb checkBody
				if (rec.Code == 200 || rec.Code == 403) && json.Unmarshal(rec.Body.Bytes(), &cb) == nil {
					if cb.Allowed {
						return CheckOut{Membership: "IsMember"}
					}
					return CheckOut{Membership: "NotMember"}
				}
				body := rec.Body.String()
				if len(body) > 160 {
					body = body[:160]
				}
				return CheckOut{Membership: "MembershipUnknown", Err: fmt.Sprintf("HTTP %d %s", rec.Code, body)}
			}}}
		}
		if batchN > 0 {
			var b []*ketoapi.RelationTuple
			for i := 0; i < batchN; i++ {
				b = append(b, apiQ)
			}
			return []*Request{{Kind: "batch", Batch: b, Depth: reqDepth}}
		}
		return []*Request{{Kind: "check", Tuple: q, Depth: reqDepth}}
	}
	desc := func(extra map[string]any) map[string]any {
		d := c.Describe()
		d["limits"] = map[string]any{"max_read_depth": depth, "max_read_width": width, "storage_call_bound": bound}
		for k, v := range extra {
			d[k] = v
		}
		return d
	}
	// leak classification needs the blocked frames: re-execute with stacks
	leakSite := func(et *Tape, plan ExecPlan) (string, []string) {
		plan.WantStacks = true
		r2 := env.Exec(ReplayTape(et.Recorded()), mk(), plan)
		fr := map[string]bool{}
		for _, l := range r2.LeakFrames {
			// key on the function, not on the line
			s := l
			if i := strings.Index(s, " @ "); i > 0 {
				s = s[:i]
			}
			if i := strings.Index(s, " in "); i > 0 {
				s = s[i+4:]
			}
			fr[s] = true
		}
		var keys []string
		for k := range fr {
			keys = append(keys, k)
		}
		sort.Strings(keys)
		return strings.Join(keys, "+"), r2.LeakFrames
	}
	checkCommon := func(r *ExecResult, e int, et *Tape, plan ExecPlan, what string, extra map[string]any) bool {
		rc.Rec.Execs++
		rc.AddSchedule(r.TraceHash)
		rc.Rec.SimTimeNs += int64(r.FakeElapsed)
		ex := map[string]any{"schedule": r.Trace, "results": r.Outs, "plan": what}
		for k, v := range extra {
			ex[k] = v
		}
		if !r.Returned && r.Outcome == DriveStepLimit && bound > r.Calls {
			// the harness stopped releasing calls below the bound: inconclusive
			rc.Count("inconclusive_step_limit", 1)
			return false
		}
		if !r.Returned {
			site := what
			if r.Outcome == DriveStepLimit {
				site += "/step-limit"
			}
			rc.Violate("hang", site, fmt.Sprintf("CheckRelationTuple did not return: nothing parked, context live, %d storage calls released (%s)", r.Calls, what), desc(ex), e, et)
			return false
		}
		if r.Calls > bound {
			rc.Violate("unbounded", what, fmt.Sprintf("%d storage calls > bound %d", r.Calls, bound), desc(ex), e, et)
			return false
		}
		if r.FakeElapsed != 0 {
			rc.Violate("slept", what, fmt.Sprintf("simulated time advanced by %v during the check", r.FakeElapsed), desc(ex), e, et)
			return false
		}
		if r.Leaked {
			site, frames := leakSite(et, plan)
			ex["leaked_goroutines"] = frames
			rc.Violate("leak-"+what, site, fmt.Sprintf("goroutines remain after return and context release (%s): %s", what, site), desc(ex), e, et)
			return false
		}
		if r.Drained > 0 {
			rc.Count("probe_drained_after_return", 1)
		}
		return true
	}

	// (a) fault-free
	et0 := rc.ExecTape(0)
	var base *ExecResult
	if !rc.SkipExec(0) || true {
		base = env.Exec(et0, mk(), NoFaults())
		if !rc.SkipExec(0) {
			if !checkCommon(base, 0, et0, NoFaults(), "return", nil) {
				return
			}
		} else if !base.Returned {
			return
		}
	}
	N := base.Calls
	if N > 500 {
		rc.Rec.Skipped = "too-expensive"
		return
	}
	sigma := et0.Recorded()
	rc.Count("base_calls", N)
	rc.Note(fmt.Sprintf("case %s d=%d w=%d N=%d outs=%v", rc.Rec.CaseHash, depth, width, N, base.Outs))
	lim := 10
	if rc.Tier == "thorough" {
		lim = 40
	}
	pos := func(n int) []int {
		var ks []int
		if n <= lim {
			for k := 1; k <= n; k++ {
				ks = append(ks, k)
			}
			return ks
		}
		return samplePositions(rc.CaseTape, n, lim)
	}
	// (b) cancellation before start (j=0) and after the j-th storage call
	js := append([]int{0}, pos(N)...)
	for _, j := range js {
		e := 1 + j
		if rc.SkipExec(e) {
			continue
		}
		var et *Tape
		if rc.Replay && e == rc.OnlyExec && rc.ReplayExec != nil {
			et = ReplayTape(rc.ReplayExec)
		} else {
			et = ReplayThen(sigma, Mix(rc.execSeed, uint64(e)))
		}
		plan := WithStragglers()
		plan.CancelAfter = j
		r := env.Exec(et, mk(), plan)
		rc.Count("fault_cancel", 1)
		rc.Note(fmt.Sprintf("cancel j=%d outs=%v ret=%v after=%d trace=%016x", j, r.Outs, r.Returned, r.ReleasedAfter, r.TraceHash))
		ok := checkCommon(r, e, et, plan, "cancel", map[string]any{"cancel_after_call": j})
		if !ok {
			continue
		}
		if r.CancelledAt >= 0 && len(r.Outs) == 1 && batchN == 0 {
			if !r.PromptReturn {
				rc.Violate("cancel-not-prompt", "cancel", fmt.Sprintf("after cancellation (after call %d) the check needed %d more storage calls to return", j, r.ReleasedAfter),
					desc(map[string]any{"schedule": r.Trace, "cancel_after_call": j}), e, et)
				continue
			}
			// a cancelled request returns an error, or the answer it had already computed
			if r.Outs[0].Err == "" && j < N {
				rc.Count("cancel_raced_with_result", 1)
			}
		}
	}
	// (c) storage failure at every k
	for _, k := range pos(N) {
		for ki, kind := range []FaultKind{FaultTransient, FaultPersistent, FaultConflict} {
			e := 1000 + (k-1)*2 + ki
			if ki >= 2 { // numbering of the first two kinds is kept for earlier replay files
				e = 2_000_000 + k
			}
			if rc.SkipExec(e) {
				continue
			}
			var et *Tape
			if rc.Replay && e == rc.OnlyExec && rc.ReplayExec != nil {
				et = ReplayTape(rc.ReplayExec)
			} else {
				et = ReplayThen(sigma, Mix(rc.execSeed, uint64(e)))
			}
			plan := WithStragglers()
			plan.FaultAt = map[int]FaultKind{k: kind}
			r := env.Exec(et, mk(), plan)
			rc.Count("stragglers_completed_late", r.Late)
			for fk, n := range r.FaultsFired {
				rc.Count("fault_"+fk, n)
			}
			op := "?"
			for i, tr := range r.Trace {
				if strings.HasPrefix(tr, "FAULT(") && i+1 < len(r.Trace) {
					op = firstWord(r.Trace[i+1])
				}
			}
			rc.Note(fmt.Sprintf("fault k=%d %s outs=%v ret=%v trace=%016x", k, kind, r.Outs, r.Returned, r.TraceHash))
			checkCommon(r, e, et, plan, "fault", map[string]any{"fault": map[string]any{"position": k, "of": N, "kind": kind.String(), "op": op}})
		}
	}
	if rc.WantSample {
		rc.Rec.Sample = desc(map[string]any{"fault_free_calls": N, "cancel_instants": js})
	}
}
