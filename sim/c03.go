package sim

import (
	"fmt"

	"github.com/ory/keto/ketoapi"
)

// C03 – storage failures during a check never produce 'allowed' (tier E,
// fault enumeration at the storage-API seam L1).
//
// For each generated case a fault-free execution under tape σ records the N
// storage calls and the decision D. The same σ is then re-executed with one
// fault at position k (every k<=N when N is small, a tape-chosen sample
// otherwise), kinds transient / persistent / ctx. After the fault the tape
// keeps driving the (possibly diverging) schedule.

func init() { Props["C03"] = runC03 }

var c03Kinds = []FaultKind{FaultTransient, FaultPersistent, FaultCtx, FaultConflict}

// c03Exec numbers the executions of a case; the first three kinds keep the
// numbering that earlier replay files refer to.
func c03Exec(k, ki int) int {
	if ki < 3 {
		return 1 + (k-1)*3 + ki
	}
	return 1_000_000 + (k-1)*8 + ki
}

func runC03(env *Env, rc *RunCtx) {
	c := GenCase(rc.CaseTape, GenOpts{Enc: -1, Gadgets: true})
	rc.Rec.CaseHash = fmt.Sprintf("%016x", c.Hash())
	ref := RefCheck(c.Cfg, c.Tuples, c.Query)
	// limits must not bind, so that the fault-free answer is one value
	if ref.NonStratified || ref.RewriteCycle || 10*ref.Reachable+10 > c01Depth {
		rc.Rec.Skipped = "limits-could-bind"
		return
	}
	batchN, batchPar := 2, 5
	if rc.Mode == "batch" && rc.CaseTape.Bool(1, 2) {
		// longer batches than the worker pool, and pools of different sizes: entries
		// that the fault does not touch still get their own answer
		batchN = []int{3, 6, 7, 8, 10}[rc.CaseTape.Choose(5)]
		batchPar = []int{1, 2, 3, 5}[rc.CaseTape.Choose(4)]
		rc.Count("probe_batch_longer_than_two", 1)
	}
	q, class, _, err := env.PrepCase(c, Limits{Depth: c01Depth, Width: 65535, BatchPar: batchPar, BatchMax: 10})
	if err != nil {
		env.T.Fatalf("harness: %v", err)
	}
	if class != "" {
		rc.Rec.Skipped = "config:" + class // C01's business
		return
	}
	batch := rc.Mode == "batch"
	mkReq := func() []*Request {
		if batch {
			var b []*ketoapi.RelationTuple
			for i := 0; i < batchN; i++ {
				b = append(b, c.Query.API())
			}
			return []*Request{{Kind: "batch", Batch: b}}
		}
		return []*Request{{Kind: "check", Tuple: q}}
	}
	et0 := rc.ExecTape(0)
	base := env.Exec(et0, mkReq(), NoFaults())
	rc.Rec.Execs++
	if !base.Returned || base.BatchErr != "" || len(base.Outs) == 0 || base.Outs[0].Err != "" {
		rc.Rec.Skipped = "base-run-failed" // C01 / C15 report that
		return
	}
	D := base.Outs[0].Allowed()
	for i := 1; batch && i < len(base.Outs); i++ {
		if base.Outs[i].Allowed() != D || base.Outs[i].Err != "" {
			rc.Rec.Skipped = "base-run-inconsistent"
			return
		}
	}
	N := base.Calls
	if N > 500 {
		// hundreds of fault positions x thousands of calls each: not worth one run
		rc.Rec.Skipped = "too-expensive"
		return
	}
	sigma := et0.Recorded()
	rc.Rec.NonTrivial = N >= 2
	rc.Count("base_calls", N)
	if D {
		rc.Count("base_allowed", 1)
	} else {
		rc.Count("base_denied", 1)
	}
	if c.Cfg.HasNegation() && !D {
		rc.Count("probe_denied_with_negation", 1)
	}
	rc.Note(fmt.Sprintf("case %s N=%d D=%v", rc.Rec.CaseHash, N, D))

	// positions
	var ks []int
	lim := 12
	if rc.Tier == "thorough" {
		lim = 40
	}
	if N <= lim {
		for k := 1; k <= N; k++ {
			ks = append(ks, k)
		}
		rc.Count("cases_all_positions", 1)
	} else {
		ks = samplePositions(rc.CaseTape, N, lim)
		rc.Count("cases_sampled_positions", 1)
	}
	if rc.Mode == "sql" {
		runC03SQL(env, rc, c, mkReq, base, sigma, D)
		return
	}
	for _, k := range ks {
		for ki, kind := range c03Kinds {
			e := c03Exec(k, ki)
			if rc.SkipExec(e) {
				continue
			}
			var et *Tape
			if rc.Replay && e == rc.OnlyExec && rc.ReplayExec != nil {
				et = ReplayTape(rc.ReplayExec)
			} else {
				et = ReplayThen(sigma, Mix(rc.execSeed, uint64(e)))
			}
			plan := NoFaults()
			plan.FaultAt = map[int]FaultKind{k: kind}
			r := env.Exec(et, mkReq(), plan)
			rc.Rec.Execs++
			rc.AddSchedule(r.TraceHash)
			for fk, n := range r.FaultsFired {
				rc.Count("fault_"+fk, n)
			}
			op := "?"
			for i, tr := range r.Trace {
				if len(tr) > 6 && tr[:6] == "FAULT(" && i+1 < len(r.Trace) {
					op = firstWord(r.Trace[i+1])
				}
			}
			rc.Note(fmt.Sprintf("k=%d kind=%s outs=%v ret=%v trace=%016x", k, kind, r.Outs, r.Returned, r.TraceHash))
			w := func() map[string]any {
				d := c.Describe()
				d["fault"] = map[string]any{"position": k, "of": N, "kind": kind.String(), "op": op}
				d["fault_free"] = map[string]any{"allowed": D, "schedule": base.Trace}
				d["schedule"] = r.Trace
				d["results"] = r.Outs
				d["request"] = mkReq()[0].Kind
				return d
			}
			site := op + "/" + kind.String()
			if !r.Returned && r.Outcome == DriveStepLimit {
				rc.Count("inconclusive_step_limit", 1)
				continue
			}
			if !r.Returned {
				rc.Count("probe_no_result", 1)
				rc.Violate("no-result", site, fmt.Sprintf("check did not return after %s fault at call %d/%d (%s)", kind, k, N, op), w(), e, et)
				continue
			}
			if r.BatchErr != "" {
				continue // the whole batch failed with an error: legal
			}
			for i, o := range r.Outs {
				if o.Err != "" && o.Allowed() {
					rc.Violate("error-with-allowed", site, fmt.Sprintf("result %d carries error %q and says allowed", i, o.Err), w(), e, et)
					break
				}
				if o.Err != "" {
					rc.Count("outcome_error", 1)
					continue
				}
				if o.Allowed() == D {
					rc.Count("outcome_same", 1)
					continue
				}
				if o.Allowed() {
					rc.Violate("fail-open-on-fault", site, fmt.Sprintf("fault-free: denied; with %s fault at call %d/%d (%s): allowed, no error", kind, k, N, op), w(), e, et)
				} else {
					rc.Violate("swallowed-error", site, fmt.Sprintf("fault-free: allowed; with %s fault at call %d/%d (%s): denied, no error", kind, k, N, op), w(), e, et)
				}
				break
			}
		}
	}
	if rc.WantSample {
		d := c.Describe()
		d["fault_free"] = map[string]any{"allowed": D, "storage_calls": N, "schedule": base.Trace}
		d["fault_positions"] = ks
		rc.Rec.Sample = d
	}
}

func firstWord(s string) string {
	for i := 0; i < len(s); i++ {
		if s[i] == ' ' {
			return s[:i]
		}
	}
	return s
}

// mode sql: the fault is injected below pop / popx / sqlcon / keto's persister,
// at the k-th SQL statement of the check (every k when the check issues few
// statements), kinds io / busy / badconn / ctx. A legally masked fault
// (database/sql retries on bad connections outside a transaction, pop retries
// "database is locked" after a sleep on the simulated clock) yields the
// fault-free result and passes.
func runC03SQL(env *Env, rc *RunCtx, c *Case, mkReq func() []*Request, base *ExecResult, sigma []uint32, D bool) {
	p0 := NoFaults()
	p0.CountSQL = true
	cnt := env.Exec(ReplayTape(sigma), mkReq(), p0)
	M := cnt.L2Statements
	rc.Count("sql_statements", M)
	if M == 0 {
		return
	}
	lim := 12
	if rc.Tier == "thorough" {
		lim = 40
	}
	var ks []int
	if M <= lim {
		for k := 1; k <= M; k++ {
			ks = append(ks, k)
		}
	} else {
		ks = samplePositions(rc.CaseTape, M, lim)
	}
	kinds := []L2Fault{L2IO, L2Busy, L2BadConn, L2Ctx, L2Down}
	for _, k := range ks {
		for ki, kind := range kinds {
			e := 5000 + (k-1)*4 + ki
			if ki >= 4 { // numbering of the first four kinds is kept for earlier replay files
				e = 3_000_000 + k
			}
			if rc.SkipExec(e) {
				continue
			}
			var et *Tape
			if rc.Replay && e == rc.OnlyExec && rc.ReplayExec != nil {
				et = ReplayTape(rc.ReplayExec)
			} else {
				et = ReplayThen(sigma, Mix(rc.execSeed, uint64(e)))
			}
			plan := NoFaults()
			plan.L2At, plan.L2Kind = k, kind
			r := env.Exec(et, mkReq(), plan)
			rc.Rec.Execs++
			rc.AddSchedule(r.TraceHash)
			rc.Count("fault_sql_"+kind.String(), r.L2Fired)
			rc.Rec.SimTimeNs += int64(r.FakeElapsed)
			rc.Note(fmt.Sprintf("sql k=%d kind=%s outs=%v ret=%v", k, kind, r.Outs, r.Returned))
			w := func() map[string]any {
				d := c.Describe()
				d["fault"] = map[string]any{"sql_statement": k, "of": M, "kind": kind.String()}
				d["fault_free"] = map[string]any{"allowed": D, "schedule": base.Trace}
				d["schedule"] = r.Trace
				d["results"] = r.Outs
				return d
			}
			site := "sql/" + kind.String()
			if !r.Returned && r.Outcome == DriveStepLimit {
				rc.Count("inconclusive_step_limit", 1)
				continue
			}
			if !r.Returned {
				rc.Violate("no-result", site, fmt.Sprintf("check did not return after a %s fault at SQL statement %d/%d", kind, k, M), w(), e, et)
				continue
			}
			if r.BatchErr != "" {
				continue
			}
			for i, o := range r.Outs {
				if o.Err != "" && o.Allowed() {
					rc.Violate("error-with-allowed", site, fmt.Sprintf("result %d carries error %q and says allowed", i, o.Err), w(), e, et)
					break
				}
				if o.Err != "" {
					rc.Count("outcome_error", 1)
					continue
				}
				if o.Allowed() == D {
					rc.Count("outcome_same", 1)
					if r.L2Fired > 0 {
						rc.Count("faults_masked", 1)
					}
					continue
				}
				if o.Allowed() {
					rc.Violate("fail-open-on-fault", site, fmt.Sprintf("fault-free: denied; with a %s fault at SQL statement %d/%d: allowed, no error", kind, k, M), w(), e, et)
				} else {
					rc.Violate("swallowed-error", site, fmt.Sprintf("fault-free: allowed; with a %s fault at SQL statement %d/%d: denied, no error", kind, k, M), w(), e, et)
				}
				break
			}
		}
	}
}
