package sim

import (
	"context"
	"fmt"
)

// C05, mode "stmt-interleave" (tier T, generalised): one toggling transaction
// (delete all of state A, insert all of state B) and one or two single-page
// listings of the same node run concurrently through the real routers, and the
// tape decides who proceeds at every SQL statement and at every acquisition of
// pop's SQLite mutexes. In mode "isolation" only the writer is parked and
// readers run to completion in between; here a reader can also be overtaken by
// the complete transaction between two of ITS statements. Every listing that
// answers must show state A or state B; a failed listing (the database table is
// locked by the parked writer) is legal.
func runC05StmtInterleave(env *Env, rc *RunCtx, sys *Sys) {
	t := rc.CaseTape
	orderSeed, order := uint64(t.Choose(1<<30)), t.Choose(3)
	nX := []int{1, 2, 3, 7}[t.Choose(4)]
	nY := []int{1, 2, 3, 9}[t.Choose(4)]
	readerPage := 0
	if t.Bool(1, 15) {
		// now and then the node holds more than a thousand relationships and the
		// reader asks for all of them in ONE page (sizes around the round numbers at
		// which a large read would plausibly be split internally)
		nY = []int{1001, 1500, 2100}[t.Choose(3)]
		readerPage = []int{1000, 2000, 5000, 10000}[t.Choose(4)]
		rc.Count("probe_single_page_over_1000_rows", 1)
	}
	var X, Y []Tuple
	for i := 0; i < nX; i++ {
		X = append(X, Tuple{NS: "N0", Obj: "doc", Rel: "r0", Sub: Subject{ID: fmt.Sprintf("x%d", i)}})
	}
	for i := 0; i < nY; i++ {
		Y = append(Y, Tuple{NS: "N0", Obj: "doc", Rel: "r0", Sub: Subject{ID: fmt.Sprintf("y%d", i)}})
	}
	theGen.Reseed(orderSeed, order)
	env.loadPre(sys, Y)
	// the names of X exist already (the mapping rows are not relationships)
	if _, err := env.Internal(X...); err != nil {
		env.T.Fatalf("harness: pre-map: %v", err)
	}
	ns, obj, rel := "N0", "doc", "r0"
	q := Query{NS: &ns, Obj: &obj, Rel: &rel}
	view := func(ts []Tuple) string { return fmt.Sprint(bagKeys(ts)) }
	vY, vX := view(Y), view(X)
	rc.Rec.CaseHash = fmt.Sprintf("%016x", fnv64(fmt.Sprint(nX, nY, orderSeed, order), 0))
	rounds := t.Range(1, 2)
	cur, other := Y, X
	for round := 0; round < rounds; round++ {
		et := rc.ExecTape(round)
		if rc.SkipExec(round) {
			// the state still has to advance as it did in the original run
			if r := sys.Transact(append(deltasOf(other, true), deltasOf(cur, false)...)); !r.OK() {
				env.T.Fatalf("harness: replay toggle: %s", r)
			}
			cur, other = other, cur
			continue
		}
		nReaders := et.Range(1, 2)
		type obs struct {
			resp Resp
			v    string
			ok   bool
		}
		var reqs []*Request
		ds := append(deltasOf(other, true), deltasOf(cur, false)...)
		theGen.Reseed(orderSeed+uint64(round)+1, order)
		reqs = append(reqs, &Request{Kind: "fn", Fn: func(ctx context.Context) any { return sys.With(ctx).Patch(ds) }})
		for i := 0; i < nReaders; i++ {
			reqs = append(reqs, &Request{Kind: "fn", Fn: func(ctx context.Context) any {
				r, p := sys.With(ctx).ListREST(q, readerPage, "", readerPage > 0)
				if p == nil {
					return obs{resp: r}
				}
				if p.Next != "" {
					// more than one page: pagination is not a snapshot (C07's business)
					return obs{resp: r}
				}
				return obs{resp: r, v: view(p.Tuples), ok: true}
			}})
		}
		plan := NoFaults()
		plan.ParkSQL = true
		plan.Sticky = []int{0, 0, 2, 8, 32, 128, 512}[et.Choose(7)]
		for range reqs {
			plan.StartAfter = append(plan.StartAfter, []int{0, 0, 1, 2, 3, 5, 8}[et.Choose(7)])
		}
		res := env.Exec(et, reqs, plan)
		rc.Rec.Execs++
		rc.AddSchedule(res.TraceHash)
		if res.MaxParked >= 2 {
			rc.Count("probe_reader_and_writer_interleaved", 1)
		}
		w := func(extra map[string]any) map[string]any {
			m := map[string]any{"state_before": view(cur), "state_after": view(other), "readers": nReaders, "schedule": res.Trace}
			for k, v := range extra {
				m[k] = v
			}
			return m
		}
		if !res.Returned {
			if res.Outcome == DriveStepLimit {
				rc.Count("inconclusive_step_limit", 1)
				return
			}
			rc.Violate("no-result", "stmt-interleave", "the transaction and the listings did not all return", w(nil), round, et)
			return
		}
		wr, _ := reqs[0].result.(Resp)
		committed := wr.OK()
		if !committed {
			rc.Count("writer_failed_busy", 1)
		}
		for i := 1; i < len(reqs); i++ {
			o, _ := reqs[i].result.(obs)
			if !o.ok {
				rc.Count("reads_failed_busy", 1)
				continue
			}
			rc.Count("reads_during_transaction", 1)
			if o.v != vY && o.v != vX {
				rc.Violate("torn-read", "stmt-interleave", fmt.Sprintf("a listing concurrent with the transaction shows %s, which is neither the state before nor the state after", o.v),
					w(map[string]any{"observed": o.v}), round, et)
				return
			}
		}
		// what is stored now: the after state if acknowledged, else the before state
		_, ts, _ := sys.ListAll(q, 0, false)
		want := view(cur)
		if committed {
			want = view(other)
		}
		if got := view(ts); got != want {
			cls := "partial-apply"
			if committed {
				cls = "acknowledged-but-not-applied"
			}
			rc.Violate(cls, "stmt-interleave", fmt.Sprintf("after the transaction (acknowledged=%v) the node holds %s, expected %s", committed, got, want), w(map[string]any{"response": wr.String()}), round, et)
			return
		}
		if committed {
			cur, other = other, cur
		}
	}
	rc.Rec.NonTrivial = true
}

func deltasOf(ts []Tuple, insert bool) []Delta {
	var ds []Delta
	for _, x := range ts {
		ds = append(ds, Delta{Insert: insert, T: x})
	}
	return ds
}
