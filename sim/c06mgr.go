package sim

import (
	"context"
	"fmt"
	"sort"
	"strings"

	"github.com/gofrs/uuid"

	"github.com/ory/keto/internal/check"
	"github.com/ory/keto/internal/driver"
	"github.com/ory/keto/internal/expand"
	"github.com/ory/keto/internal/persistence"
	ksql "github.com/ory/keto/internal/persistence/sql"
	"github.com/ory/keto/internal/relationtuple"
	"github.com/ory/keto/internal/x"
)

// C06 mode "manager": the property's own observation point - Manager,
// Traverser, check and expand engines built on two (or three) sql.Persisters
// with different network ids over ONE connection - driven with IDENTICAL
// UUIDs in every network. Through the string API two networks never share an
// object UUID (UUIDv5 per network), which hides a missing nid predicate; at
// this level nothing hides it.

type netDeps struct {
	*driver.RegistryDefault
	p  *ksql.Persister
	tr *ksql.Traverser
	ce *check.Engine
	ee *expand.Engine
}

func (d *netDeps) Persister() persistence.Persister             { return d.p }
func (d *netDeps) RelationTupleManager() relationtuple.Manager  { return d.p }
func (d *netDeps) MappingManager() relationtuple.MappingManager { return d.p }
func (d *netDeps) Traverser() relationtuple.Traverser           { return d.tr }
func (d *netDeps) NetworkID(ctx context.Context) uuid.UUID      { return d.p.NetworkID(ctx) }
func (d *netDeps) PermissionEngine() *check.Engine              { return d.ce }
func (d *netDeps) ExpandEngine() *expand.Engine                 { return d.ee }
func (d *netDeps) Mapper() *relationtuple.Mapper                { return &relationtuple.Mapper{D: d} }
func (d *netDeps) ReadOnlyMapper() *relationtuple.Mapper {
	return &relationtuple.Mapper{D: d, ReadOnly: true}
}

func newNetDeps(e *Env, nid uuid.UUID) *netDeps {
	p, err := ksql.NewPersister(e.Ctx, e.Reg, nid)
	if err != nil {
		e.T.Fatalf("persister: %v", err)
	}
	d := &netDeps{RegistryDefault: e.Reg, p: p, tr: ksql.NewTraverser(p)}
	d.ce = check.NewEngine(d)
	d.ee = expand.NewEngine(d)
	return d
}

func itKey(t *relationtuple.RelationTuple) string {
	return fmt.Sprintf("%s:%s#%s@%s", t.Namespace, t.Object, t.Relation, t.Subject.String())
}

type itModel struct {
	T []*relationtuple.RelationTuple
}

func (m *itModel) keys() []string {
	var ks []string
	for _, t := range m.T {
		ks = append(ks, itKey(t))
	}
	sort.Strings(ks)
	return ks
}

func (m *itModel) del(ts []*relationtuple.RelationTuple) {
	rm := map[string]bool{}
	for _, t := range ts {
		rm[itKey(t)] = true
	}
	var out []*relationtuple.RelationTuple
	for _, t := range m.T {
		if !rm[itKey(t)] {
			out = append(out, t)
		}
	}
	m.T = out
}

func matchQ(q *relationtuple.RelationQuery, t *relationtuple.RelationTuple) bool {
	if q.Namespace != nil && *q.Namespace != t.Namespace {
		return false
	}
	if q.Object != nil && *q.Object != t.Object {
		return false
	}
	if q.Relation != nil && *q.Relation != t.Relation {
		return false
	}
	if q.Subject != nil && !q.Subject.Equals(t.Subject) {
		return false
	}
	return true
}

func listAllMgr(ctx context.Context, m relationtuple.Manager, q *relationtuple.RelationQuery, size int) ([]string, error) {
	var out []string
	tok := ""
	for i := 0; i < 10000; i++ {
		ts, next, err := m.GetRelationTuples(ctx, q, x.WithSize(size), x.WithToken(tok))
		if err != nil {
			return nil, err
		}
		for _, t := range ts {
			out = append(out, itKey(t))
		}
		if next == "" {
			break
		}
		tok = next
	}
	sort.Strings(out)
	return out, nil
}

func runC06Manager(env *Env, rc *RunCtx) {
	t := rc.CaseTape
	ctx := env.Ctx
	env.Wipe()
	env.UseConfigCached(plainCfg, Limits{Depth: 20, Width: 1000})
	theGen.Reseed(uint64(t.Choose(1<<30)), t.Choose(3))
	nNets := 2 + t.Choose(2)
	var nets []*netDeps
	for i := 0; i < nNets; i++ {
		u, _ := theGen.NewV4()
		env.AddNetwork(u)
		nets = append(nets, newNetDeps(env, u))
	}
	// a UUID universe shared by all networks
	ou := func(s string) uuid.UUID { return uuid.NewV5(uuid.Nil, "sim-shared-"+s) }
	nss := []string{"N0", "N1"}
	rels := []string{"r0", "r1", "", "..."} // "..." is Zanzibar's spelling of "the object itself"
	nObj := t.Range(2, 5)
	mkT := func(i int) *relationtuple.RelationTuple {
		x := &relationtuple.RelationTuple{Namespace: pick(t, nss), Object: ou(fmt.Sprintf("o%d", t.Choose(nObj))), Relation: pick(t, rels)}
		if t.Bool(1, 2) {
			x.Subject = &relationtuple.SubjectID{ID: ou(fmt.Sprintf("u%d", t.Choose(4)))}
		} else {
			x.Subject = &relationtuple.SubjectSet{Namespace: pick(t, nss), Object: ou(fmt.Sprintf("o%d", t.Choose(nObj))), Relation: pick(t, rels)}
		}
		return x
	}
	bulk := func(n int, tag string) []*relationtuple.RelationTuple {
		var out []*relationtuple.RelationTuple
		for i := 0; i < n; i++ {
			out = append(out, &relationtuple.RelationTuple{Namespace: "N0", Object: ou(fmt.Sprintf("%s%d", tag, i)), Relation: "r0", Subject: &relationtuple.SubjectID{ID: ou("u0")}})
		}
		return out
	}
	models := make([]*itModel, nNets)
	for i := range models {
		models[i] = &itModel{}
	}
	var hist []string
	w := func(extra map[string]any) map[string]any {
		h := hist
		if len(h) > 30 {
			h = h[len(h)-30:]
		}
		m := map[string]any{"history_tail": h, "networks": nNets}
		for k, v := range extra {
			m[k] = v
		}
		return m
	}
	// other tenants: random tuples plus a bulk block that tenant A will also write and delete
	var shared []*relationtuple.RelationTuple
	for i := 0; i < t.Range(3, 10); i++ {
		shared = append(shared, mkT(i))
	}
	blockN := []int{0, 5, 99, 100, 101, 150, 250}[t.Choose(7)]
	if t.Bool(1, 20) {
		// now and then a block of several hundred or more than a thousand rows: sizes
		// around which a bulk statement would plausibly be sliced
		blockN = []int{499, 500, 501, 1000, 1001, 1300}[t.Weighted(2, 2, 2, 1, 1, 1)]
		rc.Count("probe_block_of_500_plus", 1)
	}
	block := bulk(blockN, "blk")
	for b := 1; b < nNets; b++ {
		all := append(append([]*relationtuple.RelationTuple(nil), shared...), block...)
		if err := nets[b].p.WriteRelationTuples(ctx, all...); err != nil {
			env.T.Fatalf("harness: %v", err)
		}
		models[b].T = append(models[b].T, all...)
	}
	// observables of a tenant
	type plan struct {
		queries []*relationtuple.RelationQuery
		probes  []*relationtuple.RelationTuple
	}
	mkPlan := func(m *itModel) plan {
		var p plan
		p.queries = append(p.queries, &relationtuple.RelationQuery{})
		for i := 0; i < 4; i++ {
			base := mkT(i)
			if len(m.T) > 0 && t.Bool(3, 4) {
				base = m.T[t.Choose(len(m.T))]
			}
			q := &relationtuple.RelationQuery{}
			sh := 1 + t.Choose(15)
			if sh&1 != 0 {
				q.Namespace = &base.Namespace
			}
			if sh&2 != 0 {
				q.Object = &base.Object
			}
			if sh&4 != 0 {
				q.Relation = &base.Relation
			}
			if sh&8 != 0 {
				q.Subject = base.Subject
			}
			p.queries = append(p.queries, q)
		}
		for i := 0; i < 5; i++ {
			base := mkT(i)
			if len(m.T) > 0 && t.Bool(3, 4) {
				base = m.T[t.Choose(len(m.T))]
			}
			p.probes = append(p.probes, &relationtuple.RelationTuple{Namespace: base.Namespace, Object: base.Object, Relation: base.Relation, Subject: &relationtuple.SubjectID{ID: ou(fmt.Sprintf("u%d", t.Choose(4)))}})
		}
		return p
	}
	observe := func(d *netDeps, p plan) []observable {
		var out []observable
		for i, q := range p.queries {
			ks, err := listAllMgr(ctx, d.p, q, []int{0, 3, 1000}[i%3])
			out = append(out, observable{fmt.Sprintf("list #%d", i), fmt.Sprint(ks, err)})
		}
		for i, pr := range p.probes {
			ex, err := d.p.ExistsRelationTuples(ctx, pr.ToQuery())
			out = append(out, observable{fmt.Sprintf("exists #%d", i), fmt.Sprint(ex, err)})
			tr, err := d.tr.TraverseSubjectSetExpansion(ctx, pr)
			var ts []string
			for _, r := range tr {
				ts = append(ts, fmt.Sprintf("%s found=%v", itKey(r.To), r.Found))
			}
			sort.Strings(ts)
			out = append(out, observable{fmt.Sprintf("traverse-expansion #%d", i), fmt.Sprint(ts, err)})
			tw, err := d.tr.TraverseSubjectSetRewrite(ctx, pr, []string{"r0", "r1"})
			var tws []string
			for _, r := range tw {
				tws = append(tws, fmt.Sprintf("%s found=%v", itKey(r.To), r.Found))
			}
			out = append(out, observable{fmt.Sprintf("traverse-rewrite #%d", i), fmt.Sprint(tws, err)})
			res := d.ce.CheckRelationTuple(ctx, pr, 0)
			out = append(out, observable{fmt.Sprintf("check #%d", i), fmt.Sprint(res.Membership, res.Err)})
			tree, err := d.ee.BuildTree(ctx, &relationtuple.SubjectSet{Namespace: pr.Namespace, Object: pr.Object, Relation: pr.Relation}, 0)
			out = append(out, observable{fmt.Sprintf("expand #%d", i), fmt.Sprint(treeSig(tree), err)})
		}
		return out
	}
	plans := make([]plan, nNets)
	snaps := make([][]observable, nNets)
	for b := 1; b < nNets; b++ {
		plans[b] = mkPlan(models[b])
		snaps[b] = observe(nets[b], plans[b])
		if ks, _ := listAllMgr(ctx, nets[b].p, &relationtuple.RelationQuery{}, 0); fmt.Sprint(ks) != fmt.Sprint(models[b].keys()) {
			rc.Violate("tenant-state", "setup", "a tenant's listing differs from what was written into it", w(nil), -1, nil)
			return
		}
	}
	A := nets[0]
	nOps := t.Range(3, 14)
	for i := 0; i < nOps; i++ {
		var desc string
		var err error
		switch t.Choose(6) {
		case 0:
			n := []int{1, 2, 5, 30}[t.Choose(4)]
			var ts []*relationtuple.RelationTuple
			for j := 0; j < n; j++ {
				if len(shared) > 0 && t.Bool(1, 2) {
					ts = append(ts, shared[t.Choose(len(shared))]) // the very tuples another tenant holds
				} else {
					ts = append(ts, mkT(j))
				}
			}
			err = A.p.WriteRelationTuples(ctx, ts...)
			desc = fmt.Sprintf("write %d", n)
			if err == nil {
				models[0].T = append(models[0].T, ts...)
			}
		case 1:
			err = A.p.WriteRelationTuples(ctx, block...)
			desc = fmt.Sprintf("write the %d-tuple block that the other tenants also hold", len(block))
			if err == nil {
				models[0].T = append(models[0].T, block...)
			}
		case 2:
			// delete tuples by value - including ones that exist only in another tenant
			var ts []*relationtuple.RelationTuple
			if t.Bool(1, 2) && len(block) > 0 {
				ts = append(ts, block...)
				if t.Bool(1, 2) {
					ts = append(ts, shared...)
				}
			} else {
				for j := 0; j < t.Range(1, 4); j++ {
					if len(shared) > 0 && t.Bool(2, 3) {
						ts = append(ts, shared[t.Choose(len(shared))])
					} else {
						ts = append(ts, mkT(j))
					}
				}
			}
			err = A.p.DeleteRelationTuples(ctx, ts...)
			desc = fmt.Sprintf("delete %d tuples by value", len(ts))
			if err == nil {
				models[0].del(ts)
			}
			rc.Count("probe_delete_by_value_in_A", 1)
			if len(ts) > 100 {
				rc.Count("probe_delete_over_100_in_A", 1)
			}
		case 3:
			q := &relationtuple.RelationQuery{}
			sh := t.Choose(16)
			base := mkT(0)
			if len(shared) > 0 {
				base = shared[t.Choose(len(shared))]
			}
			if len(block) > 0 && t.Bool(1, 2) {
				// a query that matches the whole block (never pinned to one object)
				base = block[0]
				sh &^= 2
				if sh == 0 {
					sh = 1
				}
			}
			if sh&1 != 0 {
				q.Namespace = &base.Namespace
			}
			if sh&2 != 0 {
				q.Object = &base.Object
			}
			if sh&4 != 0 {
				q.Relation = &base.Relation
			}
			if sh&8 != 0 {
				q.Subject = base.Subject
			}
			err = A.p.DeleteAllRelationTuples(ctx, q)
			desc = fmt.Sprintf("delete all matching shape %04b", sh)
			if err == nil {
				var keep []*relationtuple.RelationTuple
				for _, x := range models[0].T {
					if !matchQ(q, x) {
						keep = append(keep, x)
					}
				}
				models[0].T = keep
			}
			rc.Count("probe_delete_by_query_in_A", 1)
		case 4:
			ins := []*relationtuple.RelationTuple{mkT(0), mkT(1)}
			var del []*relationtuple.RelationTuple
			if len(shared) > 0 {
				del = append(del, shared[t.Choose(len(shared))])
			}
			if t.Bool(1, 3) {
				del = append(del, block...)
			}
			err = A.p.TransactRelationTuples(ctx, ins, del)
			desc = fmt.Sprintf("transact +%d -%d", len(ins), len(del))
			if err == nil {
				models[0].T = append(models[0].T, ins...)
				models[0].del(del)
			}
		default:
			// reads in A: must be explained by A's own data only
			pr := mkT(0)
			if len(shared) > 0 {
				pr = shared[t.Choose(len(shared))]
			}
			probe := &relationtuple.RelationTuple{Namespace: pr.Namespace, Object: pr.Object, Relation: pr.Relation, Subject: &relationtuple.SubjectID{ID: ou(fmt.Sprintf("u%d", t.Choose(4)))}}
			desc = "probe " + itKey(probe)
			// reference on A's model (plain configuration): direct or through subject sets
			var mt []Tuple
			names := map[uuid.UUID]string{}
			nm := func(u uuid.UUID) string {
				if s, ok := names[u]; ok {
					return s
				}
				names[u] = u.String()
				return names[u]
			}
			conv := func(x *relationtuple.RelationTuple) Tuple {
				o := Tuple{NS: x.Namespace, Obj: nm(x.Object), Rel: x.Relation}
				switch s := x.Subject.(type) {
				case *relationtuple.SubjectID:
					o.Sub = Subject{ID: nm(s.ID)}
				case *relationtuple.SubjectSet:
					o.Sub = Subject{Set: &SetRef{NS: s.Namespace, Obj: nm(s.Object), Rel: s.Relation}}
				}
				return o
			}
			for _, x := range models[0].T {
				mt = append(mt, conv(x))
			}
			want := RefCheck(plainCfg, mt, conv(probe)).Allowed
			res := A.ce.CheckRelationTuple(ctx, probe, 0)
			got := res.Err == nil && res.Membership.String() == "IsMember"
			rc.Rec.Execs++
			if got != want {
				rc.Violate("cross-network", "check-in-A", fmt.Sprintf("check %s in tenant A = %v, but by A's own data it is %v (the data that would explain it exists only in another tenant)", itKey(probe), got, want), w(nil), -1, nil)
				return
			}
		}
		hist = append(hist, fmt.Sprintf("[A] %s -> %v", desc, err))
		rc.Rec.Execs++
		if err != nil {
			rc.Violate("valid-rejected", "manager", hist[len(hist)-1], w(nil), -1, nil)
			return
		}
		if ks, _ := listAllMgr(ctx, A.p, &relationtuple.RelationQuery{}, 0); fmt.Sprint(ks) != fmt.Sprint(models[0].keys()) {
			rc.Violate("cross-network", "state-of-A", fmt.Sprintf("tenant A lists %d relationships, its model has %d", len(ks), len(models[0].T)), w(nil), -1, nil)
			return
		}
		for b := 1; b < nNets; b++ {
			now := observe(nets[b], plans[b])
			for j := range now {
				if now[j].val != snaps[b][j].val {
					a, bb := snaps[b][j].val, now[j].val
					if len(a) > 300 {
						a = a[:300] + "..."
					}
					if len(bb) > 300 {
						bb = bb[:300] + "..."
					}
					rc.Violate("cross-network", "observable-of-B", fmt.Sprintf("after %q in tenant A, tenant %d's %q changed from %s to %s", desc, b, now[j].name, a, bb), w(nil), -1, nil)
					return
				}
			}
		}
	}
	rc.Rec.CaseHash = fmt.Sprintf("%016x", fnv64(strings.Join(hist, "|"), 0))
	rc.Rec.NonTrivial = true
	rc.Count("ops_in_A", nOps)
	if rc.WantSample {
		rc.Rec.Sample = w(map[string]any{"block_size": blockN})
	}
}

func treeSig(t *relationtuple.Tree) string {
	if t == nil {
		return "<nil>"
	}
	s := t.Subject.String()
	if len(t.Children) > 0 {
		var cs []string
		for _, c := range t.Children {
			cs = append(cs, treeSig(c))
		}
		sort.Strings(cs)
		s += "[" + strings.Join(cs, " ") + "]"
	}
	return s
}
