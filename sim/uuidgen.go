package sim

import (
	"encoding/binary"
	"sync"

	"github.com/gofrs/uuid"
)

// simGen replaces uuid.DefaultGenerator. keto draws the primary key of every
// stored relationship (shard_id) and the network id with uuid.NewV4(), i.e.
// from crypto/rand; ORDER BY shard_id then decides which subject set a check
// expands first, which rows a width cut keeps and which node Expand reaches
// first. With the generator owned by the simulator that order is a function
// of the seed, and it can be chosen adversarially.
type simGen struct {
	mu    sync.Mutex
	real  uuid.Generator
	mode  int // 0 random, 1 ascending, 2 descending
	ctr   uint64
	state uint64
	count uint64
}

const (
	orderRandom = iota
	orderAsc
	orderDesc
)

var theGen = &simGen{real: uuid.NewGen(), state: 0x5EED}

func installUUIDGen() { uuid.DefaultGenerator = theGen }

// Reseed starts a new deterministic V4 stream.
func (g *simGen) Reseed(seed uint64, mode int) {
	g.mu.Lock()
	defer g.mu.Unlock()
	g.state = seed
	g.mode = mode
	g.ctr = 0
}

func (g *simGen) NewV4() (uuid.UUID, error) {
	g.mu.Lock()
	defer g.mu.Unlock()
	g.count++
	g.ctr++
	var u uuid.UUID
	r1, r2 := splitmix(&g.state), splitmix(&g.state)
	switch g.mode {
	case orderAsc:
		binary.BigEndian.PutUint64(u[0:8], g.ctr<<16|(r1&0xffff))
	case orderDesc:
		binary.BigEndian.PutUint64(u[0:8], (^g.ctr)<<16|(r1&0xffff))
	default:
		binary.BigEndian.PutUint64(u[0:8], r1)
	}
	binary.BigEndian.PutUint64(u[8:16], r2)
	u.SetVersion(uuid.V4)
	u.SetVariant(uuid.VariantRFC4122)
	return u, nil
}

func (g *simGen) NewV1() (uuid.UUID, error)              { return g.real.NewV1() }
func (g *simGen) NewV3(ns uuid.UUID, n string) uuid.UUID { return g.real.NewV3(ns, n) }
func (g *simGen) NewV5(ns uuid.UUID, n string) uuid.UUID { return g.real.NewV5(ns, n) }
func (g *simGen) NewV6() (uuid.UUID, error)              { return g.real.NewV6() }
func (g *simGen) NewV7() (uuid.UUID, error)              { return g.real.NewV7() }
