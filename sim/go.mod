module github.com/ory/keto/verifsim

go 1.25

replace github.com/ory/keto => /repo

replace github.com/ory/keto/proto => /repo/proto

replace github.com/gobuffalo/pop/v6 => github.com/ory/pop/v6 v6.2.1-0.20241121111754-e5dfc0f3344b

require (
	github.com/anishathalye/porcupine v1.3.0
	github.com/gofrs/uuid v4.4.0+incompatible
	github.com/julienschmidt/httprouter v1.3.0
	github.com/mattn/go-sqlite3 v1.14.24
	github.com/ory/keto v0.0.0
	github.com/ory/keto/proto v0.13.0-alpha.0
	github.com/ory/x v0.0.708
	github.com/pkg/errors v0.9.1
	github.com/sirupsen/logrus v1.9.3
	google.golang.org/grpc v1.71.1
)

require (
	code.dny.dev/ssrf v0.2.0 // indirect
	dario.cat/mergo v1.0.1 // indirect
	filippo.io/edwards25519 v1.1.0 // indirect
	github.com/Masterminds/semver/v3 v3.3.1 // indirect
	github.com/Nvveen/Gotty v0.0.0-20120604004816-cd527374f1e5 // indirect
	github.com/avast/retry-go/v4 v4.6.1 // indirect
	github.com/aymerick/douceur v0.2.0 // indirect
	github.com/beorn7/perks v1.0.1 // indirect
	github.com/cenkalti/backoff/v3 v3.2.2 // indirect
	github.com/cenkalti/backoff/v4 v4.3.0 // indirect
	github.com/cespare/xxhash/v2 v2.3.0 // indirect
	github.com/cockroachdb/cockroach-go/v2 v2.4.0 // indirect
	github.com/containerd/continuity v0.4.5 // indirect
	github.com/davecgh/go-spew v1.1.2-0.20180830191138-d8f796af33cc // indirect
	github.com/dgraph-io/ristretto/v2 v2.2.0 // indirect
	github.com/distribution/reference v0.6.0 // indirect
	github.com/docker/cli v28.0.1+incompatible // indirect
	github.com/docker/docker v28.0.2+incompatible // indirect
	github.com/docker/go-connections v0.5.0 // indirect
	github.com/docker/go-units v0.5.0 // indirect
	github.com/dustin/go-humanize v1.0.1 // indirect
	github.com/evanphx/json-patch/v5 v5.9.11 // indirect
	github.com/fatih/color v1.18.0 // indirect
	github.com/fatih/structs v1.1.0 // indirect
	github.com/felixge/httpsnoop v1.0.4 // indirect
	github.com/fsnotify/fsnotify v1.8.0 // indirect
	github.com/ghodss/yaml v1.0.0 // indirect
	github.com/go-logr/logr v1.4.2 // indirect
	github.com/go-logr/stdr v1.2.2 // indirect
	github.com/go-openapi/jsonpointer v0.21.1 // indirect
	github.com/go-openapi/swag v0.23.1 // indirect
	github.com/go-sql-driver/mysql v1.9.1 // indirect
	github.com/go-viper/mapstructure/v2 v2.2.1 // indirect
	github.com/gobuffalo/envy v1.10.2 // indirect
	github.com/gobuffalo/fizz v1.14.4 // indirect
	github.com/gobuffalo/flect v1.0.3 // indirect
	github.com/gobuffalo/github_flavored_markdown v1.1.4 // indirect
	github.com/gobuffalo/helpers v0.6.7 // indirect
	github.com/gobuffalo/nulls v0.4.2 // indirect
	github.com/gobuffalo/plush/v4 v4.1.22 // indirect
	github.com/gobuffalo/pop/v6 v6.1.1 // indirect
	github.com/gobuffalo/tags/v3 v3.1.4 // indirect
	github.com/gobuffalo/validate/v3 v3.3.3 // indirect
	github.com/gobwas/glob v0.2.3 // indirect
	github.com/goccy/go-yaml v1.16.0 // indirect
	github.com/gofrs/flock v0.12.1 // indirect
	github.com/gogo/protobuf v1.3.2 // indirect
	github.com/google/shlex v0.0.0-20191202100458-e7afc7fbc510 // indirect
	github.com/google/uuid v1.6.0 // indirect
	github.com/gorilla/css v1.0.1 // indirect
	github.com/gorilla/websocket v1.5.3 // indirect
	github.com/grpc-ecosystem/go-grpc-middleware/v2 v2.3.1 // indirect
	github.com/grpc-ecosystem/go-grpc-prometheus v1.2.0 // indirect
	github.com/grpc-ecosystem/grpc-gateway/v2 v2.26.3 // indirect
	github.com/hashicorp/go-cleanhttp v0.5.2 // indirect
	github.com/hashicorp/go-retryablehttp v0.7.7 // indirect
	github.com/inhies/go-bytesize v0.0.0-20220417184213-4913239db9cf // indirect
	github.com/jackc/chunkreader/v2 v2.0.1 // indirect
	github.com/jackc/pgconn v1.14.3 // indirect
	github.com/jackc/pgio v1.0.0 // indirect
	github.com/jackc/pgpassfile v1.0.0 // indirect
	github.com/jackc/pgproto3/v2 v2.3.3 // indirect
	github.com/jackc/pgservicefile v0.0.0-20240606120523-5a60cdf6a761 // indirect
	github.com/jackc/pgx/v5 v5.7.2 // indirect
	github.com/jackc/puddle/v2 v2.2.2 // indirect
	github.com/jmoiron/sqlx v1.4.0 // indirect
	github.com/joho/godotenv v1.5.1 // indirect
	github.com/josharian/intern v1.0.0 // indirect
	github.com/kballard/go-shellquote v0.0.0-20180428030007-95032a82bc51 // indirect
	github.com/klauspost/compress v1.18.0 // indirect
	github.com/knadh/koanf/maps v0.1.1 // indirect
	github.com/knadh/koanf/parsers/json v0.1.0 // indirect
	github.com/knadh/koanf/parsers/toml v0.1.0 // indirect
	github.com/knadh/koanf/parsers/yaml v0.1.0 // indirect
	github.com/knadh/koanf/providers/posflag v0.1.0 // indirect
	github.com/knadh/koanf/v2 v2.1.2 // indirect
	github.com/lib/pq v1.10.9 // indirect
	github.com/luna-duclos/instrumentedsql v1.1.3 // indirect
	github.com/mailru/easyjson v0.9.0 // indirect
	github.com/mattn/go-colorable v0.1.14 // indirect
	github.com/mattn/go-isatty v0.0.20 // indirect
	github.com/microcosm-cc/bluemonday v1.0.27 // indirect
	github.com/mitchellh/copystructure v1.2.0 // indirect
	github.com/mitchellh/reflectwalk v1.0.2 // indirect
	github.com/moby/docker-image-spec v1.3.1 // indirect
	github.com/moby/sys/user v0.3.0 // indirect
	github.com/moby/term v0.5.2 // indirect
	github.com/munnerz/goautoneg v0.0.0-20191010083416-a7dc8b61c822 // indirect
	github.com/nyaruka/phonenumbers v1.5.0 // indirect
	github.com/opencontainers/go-digest v1.0.0 // indirect
	github.com/opencontainers/image-spec v1.1.1 // indirect
	github.com/opencontainers/runc v1.2.5 // indirect
	github.com/openzipkin/zipkin-go v0.4.3 // indirect
	github.com/ory/analytics-go/v5 v5.0.1 // indirect
	github.com/ory/dockertest/v3 v3.11.0 // indirect
	github.com/ory/graceful v0.1.3 // indirect
	github.com/ory/herodot v0.10.3-0.20250318104651-3179543efba8 // indirect
	github.com/ory/jsonschema/v3 v3.0.9-0.20250317235931-280c5fc7bf0e // indirect
	github.com/pelletier/go-toml v1.9.5 // indirect
	github.com/pmezard/go-difflib v1.0.1-0.20181226105442-5d4384ee4fb2 // indirect
	github.com/prometheus/client_golang v1.21.1 // indirect
	github.com/prometheus/client_model v0.6.1 // indirect
	github.com/prometheus/common v0.63.0 // indirect
	github.com/prometheus/procfs v0.15.1 // indirect
	github.com/rogpeppe/go-internal v1.14.1 // indirect
	github.com/rs/cors v1.11.1 // indirect
	github.com/seatgeek/logrus-gelf-formatter v0.0.0-20210414080842-5b05eb8ff761 // indirect
	github.com/segmentio/backo-go v1.1.0 // indirect
	github.com/sergi/go-diff v1.3.1 // indirect
	github.com/soheilhy/cmux v0.1.5 // indirect
	github.com/sourcegraph/annotate v0.0.0-20160123013949-f4cad6c6324d // indirect
	github.com/sourcegraph/syntaxhighlight v0.0.0-20170531221838-bd320f5d308e // indirect
	github.com/spf13/cast v1.7.1 // indirect
	github.com/spf13/cobra v1.9.1 // indirect
	github.com/spf13/pflag v1.0.6 // indirect
	github.com/stretchr/testify v1.10.0 // indirect
	github.com/tidwall/gjson v1.18.0 // indirect
	github.com/tidwall/match v1.1.1 // indirect
	github.com/tidwall/pretty v1.2.1 // indirect
	github.com/tidwall/sjson v1.2.5 // indirect
	github.com/urfave/negroni v1.0.0 // indirect
	github.com/xeipuuv/gojsonpointer v0.0.0-20190905194746-02993c407bfb // indirect
	github.com/xeipuuv/gojsonreference v0.0.0-20180127040603-bd5ef7bd5415 // indirect
	github.com/xeipuuv/gojsonschema v1.2.0 // indirect
	github.com/xtgo/uuid v0.0.0-20140804021211-a0b114877d4c // indirect
	go.opentelemetry.io/auto/sdk v1.1.0 // indirect
	go.opentelemetry.io/contrib/instrumentation/google.golang.org/grpc/otelgrpc v0.60.0 // indirect
	go.opentelemetry.io/contrib/instrumentation/net/http/httptrace/otelhttptrace v0.60.0 // indirect
	go.opentelemetry.io/contrib/instrumentation/net/http/otelhttp v0.60.0 // indirect
	go.opentelemetry.io/contrib/propagators/b3 v1.35.0 // indirect
	go.opentelemetry.io/contrib/propagators/jaeger v1.35.0 // indirect
	go.opentelemetry.io/contrib/samplers/jaegerremote v0.29.0 // indirect
	go.opentelemetry.io/otel v1.35.0 // indirect
	go.opentelemetry.io/otel/exporters/jaeger v1.17.0 // indirect
	go.opentelemetry.io/otel/exporters/otlp/otlptrace v1.35.0 // indirect
	go.opentelemetry.io/otel/exporters/otlp/otlptrace/otlptracehttp v1.35.0 // indirect
	go.opentelemetry.io/otel/exporters/zipkin v1.35.0 // indirect
	go.opentelemetry.io/otel/metric v1.35.0 // indirect
	go.opentelemetry.io/otel/sdk v1.35.0 // indirect
	go.opentelemetry.io/otel/trace v1.35.0 // indirect
	go.opentelemetry.io/proto/otlp v1.5.0 // indirect
	golang.org/x/crypto v0.36.0 // indirect
	golang.org/x/exp v0.0.0-20250305212735-054e65f0b394 // indirect
	golang.org/x/mod v0.24.0 // indirect
	golang.org/x/net v0.38.0 // indirect
	golang.org/x/oauth2 v0.29.0 // indirect
	golang.org/x/sync v0.13.0 // indirect
	golang.org/x/sys v0.32.0 // indirect
	golang.org/x/text v0.24.0 // indirect
	google.golang.org/genproto/googleapis/api v0.0.0-20250313205543-e70fdf4c4cb4 // indirect
	google.golang.org/genproto/googleapis/rpc v0.0.0-20250404141209-ee84b53bf3d0 // indirect
	google.golang.org/protobuf v1.36.6 // indirect
	gopkg.in/yaml.v2 v2.4.0 // indirect
	gopkg.in/yaml.v3 v3.0.1 // indirect
)
