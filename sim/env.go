package sim

import (
	"context"
	"database/sql"
	"encoding/base64"
	"fmt"
	"io"
	"os"
	"runtime/debug"
	"strings"
	"sync/atomic"
	"testing"

	"github.com/gofrs/uuid"
	"github.com/sirupsen/logrus"

	"github.com/ory/keto/internal/driver"
	"github.com/ory/keto/internal/driver/config"
	"github.com/ory/keto/internal/namespace"
	"github.com/ory/keto/internal/relationtuple"
	"github.com/ory/keto/internal/x/dbx"
	"github.com/ory/keto/ketoapi"
)

// Env is one real keto registry (real config provider, namespace manager,
// mapper, persister, pop, database/sql, go-sqlite3 / SQLite) per worker,
// reused across runs: between runs both tables are wiped and the namespace
// configuration is replaced.
type Env struct {
	T    testing.TB
	Reg  *driver.RegistryDefault
	Ctx  context.Context
	L1   *l1
	Deps *simDeps
	Log  *logProbe

	dbName string
	lim    Limits
	sys    *Sys
	keeper *sql.Conn
	Opts   EnvOpts
	dbPath string
	chunkI int // discovered insert chunk boundary (largest n with one INSERT statement)
	chunkD int
	cfgKey string
	pool0  int // connection pool size the registry was built with
}

// logProbe turns the engine's log lines into reach probes.
type logProbe struct {
	DepthCut atomic.Int64
	WidthCut atomic.Int64
	DirectDB atomic.Int64
}

func (p *logProbe) Levels() []logrus.Level { return logrus.AllLevels }
func (p *logProbe) Fire(e *logrus.Entry) error {
	switch {
	case len(e.Message) >= 17 && e.Message[:17] == "reached max-depth":
		p.DepthCut.Add(1)
	case e.Message == "too many results, truncating":
		p.WidthCut.Add(1)
	case e.Message == "failed to look up direct access in db":
		p.DirectDB.Add(1)
	}
	return nil
}

type nullFormatter struct{}

func (nullFormatter) Format(*logrus.Entry) ([]byte, error) { return nil, nil }

var envCounter atomic.Int64

type EnvOpts struct {
	File   bool   // file-backed database instead of shared-cache memory
	Dir    string // directory for file-backed database
	WAL    bool
	NoWarm bool // do not touch the lazily initialised registry members (C14 race mode)
}

func NewEnv(t testing.TB, opts EnvOpts) *Env {
	installL2()
	installUUIDGen()
	theGen.Reseed(0xC0FFEE, orderRandom)
	n := envCounter.Add(1)
	name := fmt.Sprintf("verifsim_%d_%d", os.Getpid(), n)
	dsn := fmt.Sprintf("sqlite://file:%s?_fk=true&cache=shared&mode=memory", name)
	if opts.File {
		dsn = fmt.Sprintf("sqlite://file:%s/%s.sqlite?_fk=true", opts.Dir, name)
		if opts.WAL {
			dsn += "&_journal_mode=WAL"
		}
	}
	// The harness keeps one connection of its own (plain go-sqlite3, not through
	// the L2 seam): it pins an in-memory shared-cache database (which lives only
	// as long as one connection is open - injected bad-connection faults make
	// database/sql drop its connections) and it is the "separate, unwrapped
	// connection" used for table dumps.
	kdsn := fmt.Sprintf("file:%s?_fk=true&cache=shared&mode=memory", name)
	if opts.File {
		kdsn = fmt.Sprintf("file:%s/%s.sqlite?_fk=true&_busy_timeout=5000", opts.Dir, name)
		if opts.WAL {
			kdsn += "&_journal_mode=WAL"
		}
	}
	kdb, err := sql.Open("sqlite3", kdsn)
	if err != nil {
		t.Fatalf("keeper: %v", err)
	}
	keeper, err := kdb.Conn(context.Background())
	if err != nil {
		t.Fatalf("keeper: %v", err)
	}
	reg := driver.NewTestRegistry(t, &dbx.DsnT{Conn: dsn, MigrateUp: true},
		driver.WithLogLevel("panic"),
		driver.WithNamespaces([]*namespace.Namespace{{Name: "boot"}}))
	e := &Env{T: t, Reg: reg, Ctx: context.Background(), dbName: name, Log: &logProbe{}, keeper: keeper, Opts: opts}
	if opts.File {
		e.dbPath = fmt.Sprintf("%s/%s.sqlite", opts.Dir, name)
	}
	lg := reg.Logger().Logrus()
	lg.SetOutput(io.Discard)
	lg.SetFormatter(nullFormatter{})
	lg.AddHook(e.Log)
	e.L1 = &l1{names: &nameTable{m: map[uuid.UUID]string{}}}
	e.Deps = newSimDeps(reg, e.L1)
	if opts.NoWarm {
		return e
	}
	// warm up every lazily initialised member outside any bubble
	_ = reg.Tracer(e.Ctx)
	_ = reg.Writer()
	_ = reg.Mapper()
	_ = reg.ReadOnlyMapper()
	_, _ = reg.Config(e.Ctx).NamespaceManager()
	_, _ = reg.RelationTupleManager().ExistsRelationTuples(e.Ctx, &relationtuple.RelationQuery{})
	debug.SetMaxStack(64 << 20)
	return e
}

// SetLogLevel enables the engine's debug lines (reach probes) at the cost of
// formatting them.
func (e *Env) SetLogLevel(l logrus.Level) { e.Reg.Logger().Logrus().SetLevel(l) }

func (e *Env) Wipe() {
	c := e.Reg.Persister().Connection(e.Ctx)
	if err := c.RawQuery("DELETE FROM keto_relation_tuples").Exec(); err != nil {
		e.T.Fatalf("wipe: %v", err)
	}
	if err := c.RawQuery("DELETE FROM keto_uuid_mappings").Exec(); err != nil {
		e.T.Fatalf("wipe: %v", err)
	}
	e.L1.names.reset()
}

type Limits struct {
	Depth, Width, BatchPar, BatchMax int
}

func (e *Env) SetLimits(l Limits) {
	c := e.Reg.Config(e.Ctx)
	must := func(err error) {
		if err != nil {
			e.T.Fatalf("config: %v", err)
		}
	}
	if l.Depth > 0 {
		must(c.Set(config.KeyLimitMaxReadDepth, l.Depth))
	}
	if l.Width > 0 {
		must(c.Set(config.KeyLimitMaxReadWidth, l.Width))
	}
	if l.BatchPar > 0 {
		must(c.Set(config.KeyBatchCheckParallelizationLimit, l.BatchPar))
	}
	if l.BatchMax > 0 {
		must(c.Set(config.KeyBatchCheckMaxBatchSize, l.BatchMax))
	}
}

// ApplyConfig installs cfg through one of keto's real configuration paths and
// forces the namespace manager to be built (outside any bubble).
func (e *Env) ApplyConfig(cfg *Config) (opl string, err error) {
	c := e.Reg.Config(e.Ctx)
	switch cfg.Enc {
	case EncNone, EncAST:
		if cfg.Strict {
			return "", fmt.Errorf("strict mode needs an OPL configuration")
		}
		err = c.Set(config.KeyNamespaces, cfg.ToKetoAST())
	case EncOPL, EncOPLMin:
		opl = cfg.ToOPL()
		err = c.Set(config.KeyNamespaces, map[string]any{
			"location":                 "base64://" + base64.StdEncoding.EncodeToString([]byte(opl)),
			"experimental_strict_mode": cfg.Strict,
		})
	}
	if err != nil {
		return opl, err
	}
	_, err = c.NamespaceManager()
	return opl, err
}

func (t Tuple) API() *ketoapi.RelationTuple {
	r := &ketoapi.RelationTuple{Namespace: t.NS, Object: t.Obj, Relation: t.Rel}
	if t.Sub.Nil {
		return r
	}
	if t.Sub.Set != nil {
		r.SubjectSet = &ketoapi.SubjectSet{Namespace: t.Sub.Set.NS, Object: t.Sub.Set.Obj, Relation: t.Sub.Set.Rel}
	} else {
		id := t.Sub.ID
		r.SubjectID = &id
	}
	return r
}

// Internal maps a tuple to keto's internal form through the real mapper
// (writing the UUID mappings) and records the reverse names for trace keys.
func (e *Env) Internal(ts ...Tuple) ([]*relationtuple.RelationTuple, error) {
	api := make([]*ketoapi.RelationTuple, len(ts))
	for i, t := range ts {
		api[i] = t.API()
	}
	its, err := e.Reg.Mapper().FromTuple(e.Ctx, api...)
	if err != nil {
		return nil, err
	}
	for i, it := range its {
		e.L1.names.put(it.Object, ts[i].Obj)
		switch s := it.Subject.(type) {
		case *relationtuple.SubjectID:
			e.L1.names.put(s.ID, ts[i].Sub.ID)
		case *relationtuple.SubjectSet:
			e.L1.names.put(s.Object, ts[i].Sub.Set.Obj)
		}
	}
	return its, nil
}

// Load writes the tuples one request at a time (so that the shard ids follow
// the generator's order policy tuple by tuple) through the real persister.
func (e *Env) Load(ts []Tuple) error {
	its, err := e.Internal(ts...)
	if err != nil {
		return err
	}
	return e.Reg.RelationTupleManager().WriteRelationTuples(e.Ctx, its...)
}

// NewEnvFor builds the environment a property needs.
func NewEnvFor(t testing.TB, prop, mode string) *Env {
	switch prop {
	case "C06":
		return NewEnvMT(t)
	case "C17":
		if mode == "tenants" {
			return NewEnvMT(t)
		}
	case "C05":
		if mode == "crash" || mode == "isolation" || mode == "crash-wal" || mode == "isolation-wal" {
			dir, err := os.MkdirTemp("", "verifsim-c05-")
			if err != nil {
				t.Fatal(err)
			}
			t.Cleanup(func() { os.RemoveAll(dir) })
			return NewEnv(t, EnvOpts{File: true, Dir: dir, WAL: strings.HasSuffix(mode, "-wal")})
		}
	}
	return NewEnv(t, EnvOpts{})
}

// Close releases what an Env holds (used when several are created in one process).
func (e *Env) Close() {
	if e.sys != nil {
		e.sys.Close()
	}
	if e.keeper != nil {
		_ = e.keeper.Close()
	}
	if c, err := e.Reg.PopConnection(e.Ctx); err == nil {
		_ = c.Close()
	}
}

// NewNetwork moves the registry to a fresh network (tenant) id derived from
// the run's seed. Every run then lives in its own UUID space (object and
// subject ids are UUIDv5(network, string)), so no process-level state keyed by
// those ids can leak from one run into the next - a run stays a function of
// (seed, run) even for a keto that keeps such state.
func (e *Env) NewNetwork(seed uint64) {
	var u uuid.UUID
	s := seed
	for i := 0; i < 16; i += 8 {
		v := splitmix(&s)
		for j := 0; j < 8; j++ {
			u[i+j] = byte(v >> (8 * j))
		}
	}
	u.SetVersion(uuid.V4)
	u.SetVariant(uuid.VariantRFC4122)
	e.AddNetwork(u)
	e.Reg.Persister().SetNetwork(u)
}

// SetPool limits the registry's connection pool to n connections for the rest
// of the run (a tuning knob of the deployment: nothing a request does may
// depend on a second connection being available while it holds one). n <= 0
// restores the size the registry was built with.
func (e *Env) SetPool(n int) {
	h, ok := any(e.Reg.Persister().Connection(e.Ctx).Store).(interface{ SQLDB() *sql.DB })
	if !ok || h.SQLDB() == nil {
		e.T.Fatalf("harness: the connection's store has no pool to size")
	}
	s := h.SQLDB()
	if e.pool0 == 0 {
		e.pool0 = s.Stats().MaxOpenConnections
		if e.pool0 == 0 {
			e.pool0 = -1 // unlimited
		}
	}
	if n <= 0 {
		n = e.pool0
		if n < 0 {
			n = 0
		}
	}
	s.SetMaxOpenConns(n)
}
