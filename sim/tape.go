package sim

// Tape: the single source of every choice a run makes.
//
// A fresh tape draws from a splitmix64 stream seeded by one integer and
// records every drawn value. A replay tape feeds recorded values back (taken
// modulo the bound that is current at replay time; an exhausted tape yields 0),
// so a replay is a pure function of the recorded ints and the code. The
// minimiser works directly on the recorded ints (delete blocks, zero, lower).
//
// Nothing that logs ever calls into a Tape.

type Tape struct {
	state   uint64
	replay  []uint32
	isRepl  bool
	pos     int
	Rec     []uint32
	Exhaust int // replay only: number of draws past the end of the tape
	then    bool
}

func splitmix(x *uint64) uint64 {
	*x += 0x9E3779B97F4A7C15
	z := *x
	z = (z ^ (z >> 30)) * 0xBF58476D1CE4E5B9
	z = (z ^ (z >> 27)) * 0x94D049BB133111EB
	return z ^ (z >> 31)
}

// Mix derives an independent seed from a seed and a list of labels.
func Mix(seed uint64, labels ...uint64) uint64 {
	s := seed ^ 0xD1B54A32D192ED03
	out := splitmix(&s)
	for _, l := range labels {
		s = out ^ (l+1)*0x9E3779B97F4A7C15
		out = splitmix(&s)
	}
	return out
}

func MixStr(seed uint64, label string) uint64 {
	h := uint64(1469598103934665603)
	for i := 0; i < len(label); i++ {
		h ^= uint64(label[i])
		h *= 1099511628211
	}
	return Mix(seed, h)
}

func NewTape(seed uint64) *Tape { return &Tape{state: seed} }

func ReplayTape(vals []uint32) *Tape {
	return &Tape{replay: append([]uint32(nil), vals...), isRepl: true}
}

// ReplayThen replays vals and continues with a fresh stream seeded by seed
// once they are used up (used to re-drive a schedule that diverges after an
// injected fault).
func ReplayThen(vals []uint32, seed uint64) *Tape {
	return &Tape{replay: append([]uint32(nil), vals...), isRepl: true, then: true, state: seed}
}

// Choose returns a value in [0,n). n <= 1 returns 0 but still consumes a slot,
// so that the tape layout does not depend on data-dependent bounds more than
// necessary.
func (t *Tape) Choose(n int) int {
	if n <= 0 {
		n = 1
	}
	var v uint32
	if t.isRepl {
		if t.pos < len(t.replay) {
			v = t.replay[t.pos] % uint32(n)
		} else if t.then {
			v = uint32(splitmix(&t.state)>>33) % uint32(n)
		} else {
			t.Exhaust++
			v = 0
		}
		t.pos++
	} else {
		v = uint32(splitmix(&t.state)>>33) % uint32(n)
	}
	t.Rec = append(t.Rec, v)
	return int(v)
}

// Range returns a value in [lo,hi].
func (t *Tape) Range(lo, hi int) int {
	if hi < lo {
		hi = lo
	}
	return lo + t.Choose(hi-lo+1)
}

// Bool is true with probability num/den.
func (t *Tape) Bool(num, den int) bool { return t.Choose(den) < num }

// Pick chooses an index weighted by w (all weights >= 0, at least one > 0).
func (t *Tape) Weighted(w ...int) int {
	tot := 0
	for _, x := range w {
		tot += x
	}
	v := t.Choose(tot)
	for i, x := range w {
		if v < x {
			return i
		}
		v -= x
	}
	return len(w) - 1
}

func (t *Tape) Recorded() []uint32 { return append([]uint32(nil), t.Rec...) }

// samplePositions draws k distinct positions from 1..n (k < n) by a partial
// Fisher-Yates shuffle: a bounded number of draws whatever the tape returns.
func samplePositions(t *Tape, n, k int) []int {
	idx := make([]int, n)
	for i := range idx {
		idx[i] = i + 1
	}
	for i := 0; i < k && i < n; i++ {
		j := i + t.Choose(n-i)
		idx[i], idx[j] = idx[j], idx[i]
	}
	if k > n {
		k = n
	}
	return idx[:k]
}
