package sim

import (
	"context"
	"crypto/sha256"
	"encoding/json"
	"fmt"
	"net/http"
	"net/url"
	"strings"

	opl "github.com/ory/keto/proto/ory/keto/opl/v1alpha1"
	rts "github.com/ory/keto/proto/ory/keto/relation_tuples/v1alpha2"
)

// C17 – the read API never modifies stored state (tier S).
//
// After each read / syntax request: (1) the statement log of the op at the SQL
// seam contains no INSERT/UPDATE/DELETE/REPLACE/DDL; (2) a dump of both tables
// through a separate, unwrapped sqlite connection is byte-identical to before.

func init() { Props["C17"] = runC17 }

// Dump hashes every row of both tables through the keeper connection.
func (e *Env) Dump() (string, int) {
	h := sha256.New()
	n := 0
	for _, q := range []string{
		"SELECT shard_id, nid, namespace, object, relation, subject_id, subject_set_namespace, subject_set_object, subject_set_relation, commit_time FROM keto_relation_tuples ORDER BY shard_id",
		"SELECT id, string_representation FROM keto_uuid_mappings ORDER BY id",
		"SELECT id FROM networks ORDER BY id", // (not counted as stored rows)
	} {
		rows, err := e.keeper.QueryContext(context.Background(), q)
		if err != nil {
			e.T.Fatalf("dump: %v", err)
		}
		cols, _ := rows.Columns()
		for rows.Next() {
			vals := make([]any, len(cols))
			ptrs := make([]any, len(cols))
			for i := range vals {
				ptrs[i] = &vals[i]
			}
			if err := rows.Scan(ptrs...); err != nil {
				e.T.Fatalf("dump: %v", err)
			}
			fmt.Fprintf(h, "%v|", vals)
			if !strings.Contains(q, "FROM networks") {
				n++
			}
		}
		rows.Close()
		fmt.Fprint(h, "#")
	}
	return fmt.Sprintf("%x", h.Sum(nil)[:12]), n
}

type ReadReq struct {
	Kind    string  `json:"kind"`
	T       *Tuple  `json:"t,omitempty"`
	Batch   []Tuple `json:"batch,omitempty"`
	Q       *Query  `json:"q,omitempty"`
	Set     *SetRef `json:"set,omitempty"`
	Depth   int     `json:"depth,omitempty"`
	Size    int     `json:"size,omitempty"`
	Token   string  `json:"token,omitempty"`
	Content string  `json:"content,omitempty"`
}

func (r ReadReq) String() string {
	b, _ := json.Marshal(r)
	return string(b)
}

var readKinds = []string{"check-get", "check-get-openapi", "check-post", "check-post-openapi", "check-grpc", "batch-rest", "batch-grpc", "expand-rest", "expand-grpc", "list-rest", "list-grpc", "namespaces-rest", "namespaces-grpc", "syntax-rest", "syntax-grpc"}

// fresh names: strings the server has never seen (no mapping exists)
func freshName(t *Tape, i int) string { return fmt.Sprintf("never-seen-%d-%d", i, t.Choose(1000)) }

func GenReadReq(t *Tape, dom Domain, existing []Tuple, i int) ReadReq {
	k := readKinds[t.Choose(len(readKinds))]
	r := ReadReq{Kind: k, Depth: []int{0, 0, 1, 3, -1, 100000}[t.Choose(6)]}
	// names of this request that the server has never seen; the same one may be
	// used twice within the request (object and subject, or two entries of a batch)
	shared := freshName(t, i)
	fresh := func() string {
		if t.Bool(1, 3) {
			return shared
		}
		return freshName(t, i)
	}
	tuple := func() Tuple {
		var x Tuple
		if len(existing) > 0 && t.Bool(1, 2) {
			x = existing[t.Choose(len(existing))]
		} else {
			x = dom.Tuple(t)
		}
		if t.Bool(1, 3) {
			x.Obj = fresh()
		}
		if t.Bool(1, 3) {
			if x.Sub.Set != nil {
				x.Sub.Set.Obj = fresh()
			} else if !x.Sub.Nil {
				x.Sub.ID = fresh()
			}
		}
		return x
	}
	switch k {
	case "check-get", "check-get-openapi", "check-post", "check-post-openapi", "check-grpc":
		x := tuple()
		r.T = &x
	case "batch-rest", "batch-grpc":
		n := t.Range(0, 10) // up to the configured maximal batch size
		for j := 0; j < n; j++ {
			r.Batch = append(r.Batch, tuple())
		}
	case "expand-rest", "expand-grpc":
		x := tuple()
		r.Set = &SetRef{NS: x.NS, Obj: x.Obj, Rel: x.Rel}
	case "list-rest", "list-grpc":
		q := dom.Query(t, existing)
		if q.Obj != nil && t.Bool(1, 3) {
			v := freshName(t, i)
			q.Obj = &v
		}
		r.Q = &q
		r.Size = []int{0, 1, 2, 100}[t.Choose(4)]
		if t.Bool(1, 8) {
			r.Token = []string{"not-a-uuid", "00000000-0000-0000-0000-000000000000", "ffffffff-ffff-4fff-bfff-ffffffffffff"}[t.Choose(3)]
		}
	case "syntax-rest", "syntax-grpc":
		r.Content = []string{
			"class A implements Namespace {}",
			"class A implements Namespace { related: { r: A[] } permits = { p: (ctx: Context): boolean => this.related.r.includes(ctx.subject) } }",
			"class A implements",
			"\x00\xff garbage /* unterminated",
			"",
		}[t.Choose(5)]
	}
	return r
}

func (s *Sys) DoRead(r ReadReq) Resp {
	ctx := s.ctx()
	switch r.Kind {
	case "check-get", "check-get-openapi", "check-post", "check-post-openapi":
		var d *int
		if r.Depth != 0 {
			d = &r.Depth
		}
		resp, _ := s.CheckREST(r.Kind[6:], *r.T, d)
		return resp
	case "check-grpc":
		resp, _ := s.CheckGRPC(*r.T, r.Depth)
		return resp
	case "batch-rest":
		body := map[string]any{}
		var ts []any
		for _, x := range r.Batch {
			ts = append(ts, x.API())
		}
		body["tuples"] = ts
		b, _ := json.Marshal(body)
		v := url.Values{}
		if r.Depth != 0 {
			v.Set("max-depth", fmt.Sprint(r.Depth))
		}
		return s.REST(s.ReadH, "POST", "/relation-tuples/batch/check", v, b)
	case "batch-grpc":
		req := &rts.BatchCheckRequest{MaxDepth: int32(r.Depth)}
		for _, x := range r.Batch {
			req.Tuples = append(req.Tuples, x.Proto())
		}
		_, err := s.Check.BatchCheck(ctx, req)
		return grpcResp(err)
	case "expand-rest":
		var d *int
		if r.Depth != 0 {
			d = &r.Depth
		}
		resp, _ := s.ExpandREST(*r.Set, d)
		return resp
	case "expand-grpc":
		_, err := s.Expand.Expand(ctx, &rts.ExpandRequest{Subject: rts.NewSubjectSet(r.Set.NS, r.Set.Obj, r.Set.Rel), MaxDepth: int32(r.Depth)})
		return grpcResp(err)
	case "list-rest":
		resp, _ := s.ListREST(*r.Q, r.Size, r.Token, r.Size != 0)
		return resp
	case "list-grpc":
		resp, _ := s.ListGRPC(*r.Q, r.Size, r.Token)
		return resp
	case "namespaces-rest":
		return s.REST(s.ReadH, "GET", "/namespaces", nil, nil)
	case "namespaces-grpc":
		_, err := s.NSC.ListNamespaces(ctx, &rts.ListNamespacesRequest{})
		return grpcResp(err)
	case "syntax-rest":
		return s.REST(s.OPLH, "POST", "/opl/syntax/check", nil, []byte(r.Content))
	case "syntax-grpc":
		_, err := s.Syntax.Check(ctx, &opl.CheckRequest{Content: []byte(r.Content)})
		return grpcResp(err)
	}
	panic("bad read kind " + r.Kind)
}

func runC17(env *Env, rc *RunCtx) {
	t := rc.CaseTape
	// mode fresh: a registry none of whose lazily built members (mappers, engines,
	// handlers) exists yet; which request comes first - a read or a write - is the
	// tape's choice, and writes keep arriving between the reads
	fresh := rc.Mode == "fresh"
	if fresh {
		env = NewEnv(rc.T, EnvOpts{NoWarm: true})
		defer env.Close()
	}
	sys := env.SysTier()
	tenants := rc.Mode == "tenants"
	defer func() { sys.Net = "" }()
	env.Wipe()
	env.UseConfigCached(plainCfg, Limits{Depth: 100, Width: 1000, BatchMax: 10, BatchPar: 5})
	theGen.Reseed(uint64(t.Choose(1<<30)), t.Choose(3))
	dom := DefaultDomain
	m := &Model{}
	// a stored state D to protect
	nW := t.Range(0, 12)
	if fresh && t.Bool(1, 2) {
		nW = 0 // the first request this registry ever sees is a read
		rc.Count("probe_first_request_is_a_read", 1)
	}
	for i := 0; i < nW; i++ {
		op := dom.GenOp(t, m.T, false)
		if !op.IsWrite() {
			continue
		}
		valid, after, _ := dom.Expect(op, m)
		if r, _ := sys.Do(op); r.OK() && valid {
			m = after
		}
	}
	before, rows := env.Dump()
	var hist []string
	nReads := t.Range(5, 25)
	h := fnv64(before, 0)
	for i := 0; i < nReads; i++ {
		if fresh && t.Bool(1, 5) {
			// a write between the reads: the protected state moves on
			op := dom.GenOp(t, m.T, false)
			if op.IsWrite() {
				valid, after, _ := dom.Expect(op, m)
				if r, _ := sys.Do(op); r.OK() && valid {
					m = after
				}
				before, rows = env.Dump()
				hist = append(hist, fmt.Sprintf("(write) %s", op))
				rc.Count("probe_write_between_reads", 1)
			}
		}
		rq := GenReadReq(t, dom, m.T, i)
		// a quarter of the requests are hostile (mutated) requests to the read and
		// syntax APIs: a malformed request must not write either
		var hostile *hostileReq
		if t.Bool(1, 4) {
			var h hostileReq
			if t.Bool(1, 2) {
				h = sys.genHostileREST(t, dom, m.T)
			} else {
				h = sys.genHostileGRPC(t, dom, m.T)
			}
			if !h.Write {
				hostile = &h
				rq = ReadReq{Kind: "hostile-" + h.Transport, Content: h.String()}
			}
		}
		// one request in ten is a write (PUT / PATCH / DELETE on the admin path)
		// sent to the READ port or to the syntax port: whatever those ports answer,
		// nothing is written
		var smuggle func() Resp
		if hostile == nil && t.Bool(1, 10) {
			h := []http.Handler{sys.ReadH, sys.OPLH}[t.Choose(2)]
			port := "read"
			if h == sys.OPLH {
				port = "syntax"
			}
			x := dom.Tuple(t)
			if len(m.T) > 0 && t.Bool(1, 2) {
				x = m.T[t.Choose(len(m.T))]
			}
			switch t.Choose(3) {
			case 0:
				b, _ := json.Marshal(x.API())
				smuggle = func() Resp { return sys.REST(h, "PUT", "/admin/relation-tuples", nil, b) }
				rq = ReadReq{Kind: "write-verb-on-" + port + "-port", Content: "PUT /admin/relation-tuples " + x.String()}
			case 1:
				b, _ := json.Marshal([]any{map[string]any{"action": []string{"insert", "delete"}[t.Choose(2)], "relation_tuple": x.API()}})
				smuggle = func() Resp { return sys.REST(h, "PATCH", "/admin/relation-tuples", nil, b) }
				rq = ReadReq{Kind: "write-verb-on-" + port + "-port", Content: "PATCH /admin/relation-tuples " + x.String()}
			default:
				smuggle = func() Resp {
					return sys.REST(h, "DELETE", "/admin/relation-tuples", url.Values{"namespace": {x.NS}}, nil)
				}
				rq = ReadReq{Kind: "write-verb-on-" + port + "-port", Content: "DELETE /admin/relation-tuples?namespace=" + x.NS}
			}
			rc.Count("probe_write_verb_on_read_port", 1)
		}
		// mode tenants (a registry with a contextualizer, as a multi-tenant deployment
		// has): half of the requests are issued for a tenant whose network the
		// database has never seen - reading for it finds nothing and stores nothing
		if tenants {
			sys.Net = ""
			if t.Bool(1, 2) {
				sys.Net = fmt.Sprintf("%08x-51a4-4000-8000-%012x", uint32(rc.Run), i%3)
				rc.Count("probe_read_for_an_unregistered_tenant", 1)
			}
		}
		theHub.Arm(0, L2None)
		var resp Resp
		if smuggle != nil {
			resp = smuggle()
		} else if hostile != nil {
			resp = sys.doHostile(*hostile)
		} else {
			resp = sys.DoRead(rq)
		}
		log, _ := theHub.Disarm()
		rc.Rec.Execs++
		entry := fmt.Sprintf("%s -> %s", rq, resp)
		if sys.Net != "" {
			entry = "[for tenant " + sys.Net + "] " + entry
		}
		if len(entry) > 600 {
			entry = entry[:600] + "..."
		}
		hist = append(hist, entry)
		h = fnv64(entry, h)
		rc.Count("req_"+rq.Kind, 1)
		if resp.OK() {
			rc.Count("reads_ok", 1)
		} else {
			rc.Count("reads_rejected", 1)
		}
		witness := func(extra map[string]any) map[string]any {
			w := map[string]any{"requests": hist, "stored_rows_before": rows}
			for k, v := range extra {
				w[k] = v
			}
			return w
		}
		for _, st := range log {
			if st.Kind == StmtWrite || st.Kind == StmtDDL {
				rc.Violate("write-statement-on-read-path", rq.Kind[:indexOrLen(rq.Kind, '-')], fmt.Sprintf("%s issued %q", rq.Kind, st.Text), witness(map[string]any{"statement": st.Text}), -1, nil)
				return
			}
		}
		if len(log) > 0 {
			rc.Count("probe_reads_hit_database", 1)
		}
		after, _ := env.Dump()
		if after != before {
			rc.Violate("read-changed-state", rq.Kind[:indexOrLen(rq.Kind, '-')], fmt.Sprintf("table dump changed after %s", entry), witness(nil), -1, nil)
			return
		}
	}
	rc.Rec.CaseHash = fmt.Sprintf("%016x", h)
	rc.Rec.NonTrivial = rows > 0
	rc.Note(fmt.Sprintf("%016x", h))
	if rc.WantSample {
		rc.Rec.Sample = map[string]any{"requests": hist, "stored_rows": rows}
	}
}

func indexOrLen(s string, c byte) int {
	for i := 0; i < len(s); i++ {
		if s[i] == c {
			return i
		}
	}
	return len(s)
}
