package sim

import (
	"fmt"
	"github.com/ory/keto/internal/check/checkgroup"

	"github.com/ory/keto/ketoapi"
)

// C01 – check decisions equal the relationship-graph semantics (tier E).

const c01Depth = 1000

func init() { Props["C01"] = runC01 }

func execsFor(tier string, quick, thorough int) int {
	if tier == "thorough" {
		return thorough
	}
	return quick
}

func runC01(env *Env, rc *RunCtx) {
	c := GenCase(rc.CaseTape, GenOpts{Enc: -1, Gadgets: true, MinParens: false})
	// one case in ten: parents of two kinds that carry the SAME object name (the
	// uuid of an object is derived from its name, not from its namespace): view
	// and its negation are inherited through a union-typed relation
	if t := rc.CaseTape; t.Bool(1, 10) {
		user := []TypeRef{{NS: "U"}}
		kind := func(name string) *NSDef {
			return &NSDef{Name: name, Rels: []*RelDef{{Name: "viewers", Types: user}, {Name: "view", Rewrite: &Expr{Kind: ExIncludes, Rel: "viewers"}}}}
		}
		trav := &Expr{Kind: ExTraverse, Rel: "parents", Computed: "view", ViaPermits: true}
		// the child's permissions are called like the parents' ("view") or not ("read")
		pv, ph := "view", "hidden"
		if t.Bool(1, 2) {
			pv, ph = "read", "concealed"
		}
		doc := &NSDef{Name: "Doc", Rels: []*RelDef{{Name: "parents", Types: []TypeRef{{NS: "Folder"}, {NS: "Project"}}},
			{Name: pv, Rewrite: trav}, {Name: ph, Rewrite: &Expr{Kind: ExNot, Children: []*Expr{{Kind: ExTraverse, Rel: "parents", Computed: "view", ViaPermits: true}}}}}}
		enc := c.Cfg.Enc
		if enc == EncNone {
			enc = EncOPL
		}
		strict := c.Cfg.Strict
		if enc == EncOPL || enc == EncOPLMin {
			strict = t.Bool(1, 2)
		}
		c.Cfg = &Config{Enc: enc, Strict: strict, NS: []*NSDef{{Name: "U"}, kind("Folder"), kind("Project"), doc}}
		names := []string{"alpha", "beta"}
		c.Tuples = nil
		for _, d := range []string{"d0", "d1"} {
			n := names[t.Choose(2)]
			c.Tuples = append(c.Tuples,
				Tuple{NS: "Doc", Obj: d, Rel: "parents", Sub: Subject{Set: &SetRef{NS: "Folder", Obj: n}}},
				Tuple{NS: "Doc", Obj: d, Rel: "parents", Sub: Subject{Set: &SetRef{NS: "Project", Obj: n}}})
		}
		for i := 0; i < t.Range(1, 3); i++ {
			c.Tuples = append(c.Tuples, Tuple{NS: []string{"Folder", "Project"}[t.Choose(2)], Obj: names[t.Choose(2)], Rel: "viewers", Sub: Subject{ID: fmt.Sprintf("u%d", t.Choose(2))}})
		}
		if t.Bool(1, 2) {
			// a relationship written directly on a PERMISSION of a parent (strict mode
			// ignores it, default mode honours it)
			c.Tuples = append(c.Tuples, Tuple{NS: []string{"Folder", "Project"}[t.Choose(2)], Obj: names[t.Choose(2)], Rel: "view", Sub: Subject{ID: fmt.Sprintf("u%d", t.Choose(2))}})
		}
		c.Query = Tuple{NS: "Doc", Obj: []string{"d0", "d1"}[t.Choose(2)], Rel: []string{pv, ph}[t.Choose(2)], Sub: Subject{ID: fmt.Sprintf("u%d", t.Choose(2))}}
		c.Conforming = true
		rc.Count("probe_same_object_name_in_two_namespaces", 1)
	} else if t.Bool(1, 10) {
		// one case in ten: the stored relationships are a MULTISET. Intersections
		// (also negated, nested and reached through permits) over relations that hold
		// the same relationship zero to three times, for some operands but not all
		inc := func(r string) *Expr { return &Expr{Kind: ExIncludes, Rel: r} }
		and := func(es ...*Expr) *Expr { return &Expr{Kind: ExAnd, Children: es} }
		ty := []TypeRef{{NS: "U"}, {NS: "Grp", Rel: "members"}}
		doc := &NSDef{Name: "Doc", Rels: []*RelDef{{Name: "a", Types: ty}, {Name: "b", Types: ty}, {Name: "c", Types: ty},
			{Name: "p2", Rewrite: and(inc("a"), inc("b"))},
			{Name: "p3", Rewrite: and(inc("a"), inc("b"), inc("c"))},
			{Name: "n2", Rewrite: &Expr{Kind: ExNot, Children: []*Expr{and(inc("a"), inc("b"))}}},
			{Name: "pp", Rewrite: and(&Expr{Kind: ExPermits, Rel: "p2"}, inc("c"))},
			{Name: "po", Rewrite: &Expr{Kind: ExOr, Children: []*Expr{and(inc("b"), inc("c")), and(inc("a"), inc("c"))}}}}}
		enc := c.Cfg.Enc
		if enc == EncNone {
			enc = EncOPL
		}
		strict := c.Cfg.Strict
		if enc == EncOPL || enc == EncOPLMin {
			strict = t.Bool(1, 2)
		}
		c.Cfg = &Config{Enc: enc, Strict: strict, NS: []*NSDef{{Name: "U"}, {Name: "Grp", Rels: []*RelDef{{Name: "members", Types: []TypeRef{{NS: "U"}}}}}, doc}}
		c.Tuples = nil
		sub := Subject{ID: fmt.Sprintf("u%d", t.Choose(2))}
		for _, r := range []string{"a", "b", "c"} {
			k := t.Weighted(3, 2, 3, 1) // copies of the direct relationship
			for i := 0; i < k; i++ {
				c.Tuples = append(c.Tuples, Tuple{NS: "Doc", Obj: "d0", Rel: r, Sub: sub})
			}
			if t.Bool(1, 4) {
				c.Tuples = append(c.Tuples, Tuple{NS: "Doc", Obj: "d0", Rel: r, Sub: Subject{Set: &SetRef{NS: "Grp", Obj: "g", Rel: "members"}}})
			}
			if t.Bool(1, 4) {
				c.Tuples = append(c.Tuples, Tuple{NS: "Doc", Obj: "d0", Rel: r, Sub: Subject{ID: "u2"}})
			}
		}
		for i := 0; i < t.Choose(3); i++ {
			c.Tuples = append(c.Tuples, Tuple{NS: "Grp", Obj: "g", Rel: "members", Sub: sub})
		}
		c.Query = Tuple{NS: "Doc", Obj: "d0", Rel: []string{"p2", "p3", "n2", "pp", "po"}[t.Choose(5)], Sub: sub}
		c.Conforming = true
		rc.Count("probe_duplicates_below_intersection", 1)
	}
	// one case in twelve: relationships left over from a namespace that is no longer
	// configured. They are written while "Gone" is still a (plain) namespace and
	// hang off nodes of the case as dead ends - subject sets in Gone that hold
	// nobody the case knows - then Gone is taken out of the configuration. Whether
	// an engine follows or ignores them, the answer is the one without them.
	var reduced *Config
	if t := rc.CaseTape; t.Bool(1, 12) && len(c.Tuples) > 0 && c.Cfg.FindNS("Gone") == nil {
		reduced = c.Cfg
		full := *c.Cfg
		full.NS = append(append([]*NSDef{}, c.Cfg.NS...), &NSDef{Name: "Gone"})
		c.Cfg = &full
		k := t.Range(1, 3)
		for i := 0; i < k; i++ {
			x := c.Tuples[t.Choose(len(c.Tuples))]
			c.Tuples = append(c.Tuples, Tuple{NS: x.NS, Obj: x.Obj, Rel: x.Rel, Sub: Subject{Set: &SetRef{NS: "Gone", Obj: fmt.Sprintf("g%d", i), Rel: "m"}}})
		}
		if t.Bool(1, 2) {
			c.Tuples = append(c.Tuples, Tuple{NS: "Gone", Obj: "g0", Rel: "m", Sub: Subject{ID: "nobody-of-this-case"}})
		}
		rc.Count("probe_relationships_of_a_removed_namespace", 1)
	}
	rc.Rec.CaseHash = fmt.Sprintf("%016x", c.Hash())
	ref := RefCheck(c.Cfg, c.Tuples, c.Query)
	if ref.NonStratified {
		rc.Rec.Skipped = "nonstratified"
		return
	}
	if ref.RewriteCycle {
		rc.Rec.Skipped = "rewrite-cycle"
		return
	}
	if 10*ref.Reachable+10 > c01Depth {
		rc.Rec.Skipped = "too-large"
		return
	}
	q, class, detail, err := env.PrepCase(c, Limits{Depth: c01Depth, Width: 65535})
	if err != nil {
		env.T.Fatalf("harness: %v", err)
	}
	if reduced != nil && class == "" {
		if _, err := env.ApplyConfig(reduced); err != nil {
			env.T.Fatalf("harness: reduced config: %v", err)
		}
	}
	desc := func(extra map[string]any) map[string]any {
		d := c.Describe()
		if reduced != nil {
			d["namespace_removed_after_writing"] = "Gone"
		}
		d["reference"] = map[string]any{"allowed": ref.Allowed, "reachable_nodes": ref.Reachable, "hops": ref.Hops, "rewrite_edges": ref.RewriteEdges}
		for k, v := range extra {
			d[k] = v
		}
		return d
	}
	if class != "" {
		rc.Violate(class, "config", detail, desc(nil), -1, nil)
		return
	}
	rc.Rec.NonTrivial = (ref.Hops >= 1 || ref.RewriteEdges >= 1) && !ref.DirectOnly
	if ref.Hops >= 2 {
		rc.Count("probe_two_hops", 1)
	}
	if c.Cfg.Strict {
		rc.Count("strict_cases", 1)
	}
	rc.Count("enc_"+[]string{"none", "ast", "opl", "oplmin"}[c.Cfg.Enc], 1)
	if ref.Allowed {
		rc.Count("ref_allowed", 1)
	} else {
		rc.Count("ref_denied", 1)
	}
	rc.Note(fmt.Sprintf("case %s ref=%v", rc.Rec.CaseHash, ref.Allowed))

	nExec := execsFor(rc.Tier, 4, 16)
	apiQ := c.Query.API()
	curOrder := 0
	for e := 0; e < nExec; e++ {
		if rc.SkipExec(e) {
			continue
		}
		// every pair of executions runs on another storage order of the same multiset
		if ok := e / 2; ok != curOrder {
			if reduced != nil {
				if _, err := env.ApplyConfig(c.Cfg); err != nil {
					env.T.Fatalf("harness: full config: %v", err)
				}
			}
			if err := env.Reload(c.Tuples, Mix(c.OrderSeed, uint64(ok)), (c.Order+ok)%3); err != nil {
				env.T.Fatalf("harness reload: %v", err)
			}
			if reduced != nil {
				if _, err := env.ApplyConfig(reduced); err != nil {
					env.T.Fatalf("harness: reduced config: %v", err)
				}
			}
			curOrder = ok
		}
		et := rc.ExecTape(e)
		var reqs []*Request
		batch := e%4 == 3
		if batch {
			reqs = []*Request{{Kind: "batch", Batch: []*ketoapi.RelationTuple{apiQ, apiQ, apiQ}[:2+e%2]}}
		} else {
			reqs = []*Request{{Kind: "check", Tuple: q}}
		}
		r := env.Exec(et, reqs, WithStragglers())
		rc.Count("stragglers_completed_late", r.Late)
		rc.Rec.Execs++
		rc.AddSchedule(r.TraceHash)
		rc.Rec.ParkedSets += r.ParkedSets
		rc.Rec.SimTimeNs += int64(r.FakeElapsed)
		rc.Count("storage_calls", r.Calls)
		rc.Count("ties", r.Ties)
		if r.MaxParked >= 2 {
			rc.Count("probe_concurrent_parked", 1)
		}
		if r.OpCount["list"] > 0 {
			rc.Count("probe_traverse_listing", 1)
		}
		rc.Note(fmt.Sprintf("exec %d trace=%016x outs=%v ret=%v", e, r.TraceHash, r.Outs, r.Returned))
		if debugNotes {
			rc.Note(fmt.Sprint(r.Trace))
		}
		w := func() map[string]any {
			return desc(map[string]any{"schedule": r.Trace, "results": r.Outs, "request": reqs[0].Kind})
		}
		if !r.Returned && r.Outcome == DriveStepLimit {
			// not a hang: the harness stopped releasing storage calls (exponential
			// re-evaluation of duplicated operands); inconclusive, counted
			rc.Count("inconclusive_step_limit", 1)
			rc.Rec.Skipped = "step-limit"
			return
		}
		if !r.Returned {
			// a hang is C15's business; here it is "no answer"
			rc.Violate("no-result", "hang", fmt.Sprintf("check did not return (outcome %d, %d calls)", r.Outcome, r.Calls), w(), e, et)
			return
		}
		if r.BatchErr != "" {
			rc.Violate("unexpected-error", "batch", r.BatchErr, w(), e, et)
			return
		}
		for _, o := range r.Outs {
			if o.Err != "" {
				if ref.Allowed {
					rc.Violate("engine", "error-instead-of-allowed", "reference says allowed, engine returned error: "+o.Err, w(), e, et)
					return
				}
				rc.Count("errors_when_denied", 1)
				continue
			}
			if o.Allowed() != ref.Allowed {
				site := "denied-but-member"
				if o.Allowed() {
					site = "allowed-but-not-member"
				}
				rc.Violate("engine", site, fmt.Sprintf("engine=%s reference allowed=%v", o.Membership, ref.Allowed), w(), e, et)
				return
			}
		}
	}
	// Once more without the storage seam: the registry's own engine on the real
	// persister and traverser (whatever optional fast paths they offer are taken
	// here, and only here - the seam's wrappers hide them). The schedule of this
	// execution is the Go runtime's, not the tape's; the answer must be the
	// reference's all the same.
	if !rc.SkipExec(900) {
		res := env.Reg.PermissionEngine().CheckRelationTuple(env.Ctx, q, 0)
		rc.Rec.Execs++
		rc.Count("unwrapped_engine_checks", 1)
		if res.Err == nil && (res.Membership == checkgroup.IsMember) != ref.Allowed {
			site := "denied-but-member"
			if res.Membership == checkgroup.IsMember {
				site = "allowed-but-not-member"
			}
			rc.Violate("engine-without-seam", site, fmt.Sprintf("the registry's own engine (no storage seam) says %s, reference allowed=%v", res.Membership, ref.Allowed), desc(nil), 900, nil)
			return
		}
	}
	if rc.WantSample {
		rc.Rec.Sample = desc(nil)
	}
}
