package sim

import (
	"fmt"
	"sort"
	"strings"

	"github.com/ory/keto/internal/namespace"
	"github.com/ory/keto/internal/namespace/ast"
)

// The simulator's own description of a configuration, a store and a query.
// Nothing here is derived from keto's parse result: the generator produces
// these values and renders them into keto's three configuration encodings.

type ExprKind int

const (
	ExOr ExprKind = iota
	ExAnd
	ExNot
	ExIncludes // this.related.R.includes(ctx.subject)
	ExPermits  // this.permits.P(ctx)
	ExTraverse // this.related.R.traverse(p => p.related.C.includes(ctx.subject) | p.permits.C(ctx))
)

type Expr struct {
	Kind       ExprKind `json:"k"`
	Children   []*Expr  `json:"c,omitempty"`
	Rel        string   `json:"r,omitempty"`
	Computed   string   `json:"cr,omitempty"`
	ViaPermits bool     `json:"vp,omitempty"`
}

type TypeRef struct {
	NS  string `json:"ns"`
	Rel string `json:"rel,omitempty"`
}

type RelDef struct {
	Name    string    `json:"name"`
	Types   []TypeRef `json:"types,omitempty"`
	Rewrite *Expr     `json:"rw,omitempty"`
}

type NSDef struct {
	Name string    `json:"name"`
	Rels []*RelDef `json:"rels,omitempty"`
}

const (
	EncNone   = iota // namespaces without relation configuration
	EncAST           // Go AST through config.Set(namespaces, []*namespace.Namespace)
	EncOPL           // OPL text, fully parenthesised
	EncOPLMin        // OPL text, TypeScript-minimal parentheses
)

type Config struct {
	NS     []*NSDef `json:"ns"`
	Strict bool     `json:"strict,omitempty"`
	Enc    int      `json:"enc"`
	// PermitsFirst renders `permits` before `related` in every class (member order
	// is free in OPL)
	PermitsFirst bool `json:"permits_first,omitempty"`
	// AnnotateTraverse renders traverse parameters with a type annotation (the first
	// declared type of the traversed relation)
	AnnotateTraverse bool `json:"annotate_traverse,omitempty"`
}

type SetRef struct {
	NS  string `json:"ns"`
	Obj string `json:"obj"`
	Rel string `json:"rel"`
}

type Subject struct {
	ID  string  `json:"id,omitempty"`
	Set *SetRef `json:"set,omitempty"`
	Nil bool    `json:"nil,omitempty"` // no subject at all (an invalid request)
}

func (s Subject) String() string {
	if s.Nil {
		return "<nil>"
	}
	if s.Set != nil {
		return fmt.Sprintf("(%s:%s#%s)", s.Set.NS, s.Set.Obj, s.Set.Rel)
	}
	return s.ID
}

func (s Subject) Equal(o Subject) bool {
	if (s.Set == nil) != (o.Set == nil) {
		return false
	}
	if s.Set != nil {
		return *s.Set == *o.Set
	}
	return s.ID == o.ID
}

type Tuple struct {
	NS  string  `json:"ns"`
	Obj string  `json:"obj"`
	Rel string  `json:"rel"`
	Sub Subject `json:"sub"`
}

func (t Tuple) String() string {
	return fmt.Sprintf("%s:%s#%s@%s", t.NS, t.Obj, t.Rel, t.Sub)
}

func (c *Config) FindNS(name string) *NSDef {
	for _, n := range c.NS {
		if n.Name == name {
			return n
		}
	}
	return nil
}

func (n *NSDef) FindRel(name string) *RelDef {
	if n == nil {
		return nil
	}
	for _, r := range n.Rels {
		if r.Name == name {
			return r
		}
	}
	return nil
}

func (c *Config) HasNegation() bool {
	var has func(e *Expr) bool
	has = func(e *Expr) bool {
		if e == nil {
			return false
		}
		if e.Kind == ExNot {
			return true
		}
		for _, ch := range e.Children {
			if has(ch) {
				return true
			}
		}
		return false
	}
	for _, n := range c.NS {
		for _, r := range n.Rels {
			if has(r.Rewrite) {
				return true
			}
		}
	}
	return false
}

func (c *Config) HasRewrites() bool {
	for _, n := range c.NS {
		for _, r := range n.Rels {
			if r.Rewrite != nil {
				return true
			}
		}
	}
	return false
}

// ---------------------------------------------------------------------------
// keto Go AST (encoding EncAST). The shape mirrors what a hand-written legacy
// configuration looks like: n-ary operators, one top-level rewrite.

func (e *Expr) toChild() ast.Child {
	switch e.Kind {
	case ExOr, ExAnd:
		op := ast.OperatorOr
		if e.Kind == ExAnd {
			op = ast.OperatorAnd
		}
		rw := &ast.SubjectSetRewrite{Operation: op}
		for _, c := range e.Children {
			rw.Children = append(rw.Children, c.toChild())
		}
		return rw
	case ExNot:
		return &ast.InvertResult{Child: e.Children[0].toChild()}
	case ExIncludes, ExPermits:
		return &ast.ComputedSubjectSet{Relation: e.Rel}
	case ExTraverse:
		return &ast.TupleToSubjectSet{Relation: e.Rel, ComputedSubjectSetRelation: e.Computed}
	}
	panic("bad expr")
}

func (c *Config) ToKetoAST() []*namespace.Namespace {
	var out []*namespace.Namespace
	for i, n := range c.NS {
		kn := &namespace.Namespace{Name: n.Name, ID: int32(i)}
		if c.Enc != EncNone {
			for _, r := range n.Rels {
				kr := ast.Relation{Name: r.Name}
				for _, t := range r.Types {
					kr.Types = append(kr.Types, ast.RelationType{Namespace: t.NS, Relation: t.Rel})
				}
				if r.Rewrite != nil {
					ch := r.Rewrite.toChild()
					if rw, ok := ch.(*ast.SubjectSetRewrite); ok {
						kr.SubjectSetRewrite = rw
					} else {
						kr.SubjectSetRewrite = &ast.SubjectSetRewrite{Operation: ast.OperatorOr, Children: ast.Children{ch}}
					}
				}
				kn.Relations = append(kn.Relations, kr)
			}
		}
		out = append(out, kn)
	}
	return out
}

// ---------------------------------------------------------------------------
// OPL rendering

func prec(k ExprKind) int {
	switch k {
	case ExOr:
		return 1
	case ExAnd:
		return 2
	case ExNot:
		return 3
	}
	return 4
}

// markRefs makes the renderers wrap every *reference* to a namespace or
// relation in \x01kind\x03name\x02 (used by C11's converse half to locate and
// replace references).
var markRefs bool

func ref(kind, name string) string {
	if markRefs {
		return "\x01" + kind + "\x03" + name + "\x02"
	}
	return name
}

func (e *Expr) opl(full bool, parent ExprKind, top bool) string {
	switch e.Kind {
	case ExIncludes:
		return fmt.Sprintf("this.related.%s.includes(ctx.subject)", ref("includes", e.Rel))
	case ExPermits:
		return fmt.Sprintf("this.permits.%s(ctx)", ref("permits", e.Rel))
	case ExTraverse:
		param := "(p)"
		if oplParamType != nil {
			if ty := oplParamType(e.Rel); ty != "" {
				param = "(p: " + ty + ")"
			}
		}
		if e.ViaPermits {
			return fmt.Sprintf("this.related.%s.traverse(%s => p.permits.%s(ctx))", ref("traverse-rel", e.Rel), param, ref("traverse-computed", e.Computed))
		}
		return fmt.Sprintf("this.related.%s.traverse(%s => p.related.%s.includes(ctx.subject))", ref("traverse-rel", e.Rel), param, ref("traverse-computed", e.Computed))
	case ExNot:
		c := e.Children[0]
		s := c.opl(full, ExNot, false)
		if c.Kind == ExOr || c.Kind == ExAnd {
			// children of a binary operator render without their own parens here
			return "!(" + c.opl(full, ExOr, true) + ")"
		}
		if full {
			return "!(" + s + ")"
		}
		return "!" + s
	case ExOr, ExAnd:
		op := " || "
		if e.Kind == ExAnd {
			op = " && "
		}
		var parts []string
		for _, c := range e.Children {
			parts = append(parts, c.opl(full, e.Kind, false))
		}
		s := strings.Join(parts, op)
		if top {
			return s
		}
		need := full || prec(e.Kind) < prec(parent) || (e.Kind == parent)
		// same operator nested: keep the parens so that the generated tree shape
		// is what the text says (the parser flattens it, the comparison is up to
		// flattening)
		if need {
			return "(" + s + ")"
		}
		return s
	}
	panic("bad expr")
}

func typeOPL(ts []TypeRef) string {
	var parts []string
	for _, t := range ts {
		if t.Rel == "" {
			parts = append(parts, ref("type-namespace", t.NS))
		} else {
			parts = append(parts, fmt.Sprintf("SubjectSet<%s, \"%s\">", ref("subjectset-namespace", t.NS), ref("subjectset-relation", t.Rel)))
		}
	}
	if len(parts) == 1 {
		return parts[0] + "[]"
	}
	return "(" + strings.Join(parts, " | ") + ")[]"
}

// oplParamType, when set (by ToOPL, for the class being rendered), gives the type
// annotation of a traverse parameter: TypeScript would allow
// `traverse((p: Folder) => ...)`. If the parser accepts the annotation, what it
// accepts has to hold at check time like everything else.
var oplParamType func(rel string) string

func (c *Config) ToOPL() string {
	full := c.Enc != EncOPLMin
	defer func() { oplParamType = nil }()
	var b strings.Builder
	b.WriteString("import { Namespace, Context, SubjectSet } from \"@ory/keto-namespace-types\"\n\n")
	for _, n := range c.NS {
		fmt.Fprintf(&b, "class %s implements Namespace {\n", n.Name)
		oplParamType = nil
		if c.AnnotateTraverse {
			cur := n
			oplParamType = func(rel string) string {
				if r := cur.FindRel(rel); r != nil && len(r.Types) > 0 {
					return r.Types[0].NS
				}
				return ""
			}
		}
		var plain, perms []*RelDef
		for _, r := range n.Rels {
			if r.Rewrite == nil {
				plain = append(plain, r)
			} else {
				perms = append(perms, r)
			}
		}
		related := func() {
			if len(plain) > 0 {
				b.WriteString("  related: {\n")
				for _, r := range plain {
					fmt.Fprintf(&b, "    %s: %s\n", r.Name, typeOPL(r.Types))
				}
				b.WriteString("  }\n")
			}
		}
		if !c.PermitsFirst {
			related()
		}
		if len(perms) > 0 {
			b.WriteString("  permits = {\n")
			for _, r := range perms {
				fmt.Fprintf(&b, "    %s: (ctx: Context): boolean => %s,\n", r.Name, r.Rewrite.opl(full, ExOr, true))
			}
			b.WriteString("  }\n")
		}
		if c.PermitsFirst {
			related()
		}
		b.WriteString("}\n\n")
	}
	return b.String()
}

// ---------------------------------------------------------------------------
// structural comparison of a parsed keto AST with the generator's expression,
// up to flattening of associative operators and single-child wrappers.

type normExpr struct {
	Op   string
	Kids []*normExpr
}

func (n *normExpr) String() string {
	if len(n.Kids) == 0 {
		return n.Op
	}
	var ks []string
	for _, k := range n.Kids {
		ks = append(ks, k.String())
	}
	return n.Op + "(" + strings.Join(ks, ",") + ")"
}

func flatten(n *normExpr) *normExpr {
	if n.Op != "or" && n.Op != "and" {
		for i, k := range n.Kids {
			n.Kids[i] = flatten(k)
		}
		return n
	}
	var kids []*normExpr
	for _, k := range n.Kids {
		k = flatten(k)
		if k.Op == n.Op {
			kids = append(kids, k.Kids...)
		} else {
			kids = append(kids, k)
		}
	}
	if len(kids) == 1 {
		return kids[0]
	}
	// operands of && and || commute for the truth value
	sort.SliceStable(kids, func(i, j int) bool { return kids[i].String() < kids[j].String() })
	n.Kids = kids
	return n
}

func normFromExpr(e *Expr) *normExpr {
	switch e.Kind {
	case ExOr, ExAnd:
		op := "or"
		if e.Kind == ExAnd {
			op = "and"
		}
		n := &normExpr{Op: op}
		for _, c := range e.Children {
			n.Kids = append(n.Kids, normFromExpr(c))
		}
		return n
	case ExNot:
		return &normExpr{Op: "not", Kids: []*normExpr{normFromExpr(e.Children[0])}}
	case ExIncludes, ExPermits:
		return &normExpr{Op: "css:" + e.Rel}
	case ExTraverse:
		return &normExpr{Op: "tts:" + e.Rel + ">" + e.Computed}
	}
	panic("bad expr")
}

func normFromKeto(c ast.Child) *normExpr {
	switch v := c.(type) {
	case *ast.SubjectSetRewrite:
		op := "or"
		if v.Operation == ast.OperatorAnd {
			op = "and"
		}
		n := &normExpr{Op: op}
		for _, k := range v.Children {
			n.Kids = append(n.Kids, normFromKeto(k))
		}
		return n
	case *ast.InvertResult:
		return &normExpr{Op: "not", Kids: []*normExpr{normFromKeto(v.Child)}}
	case *ast.ComputedSubjectSet:
		return &normExpr{Op: "css:" + v.Relation}
	case *ast.TupleToSubjectSet:
		return &normExpr{Op: "tts:" + v.Relation + ">" + v.ComputedSubjectSetRelation}
	}
	return &normExpr{Op: fmt.Sprintf("?%T", c)}
}

// SameDenotation reports whether keto's parsed rewrite denotes the generator's
// expression.
func SameDenotation(e *Expr, rw *ast.SubjectSetRewrite) (bool, string, string) {
	a := flatten(normFromExpr(e)).String()
	b := flatten(normFromKeto(rw)).String()
	return a == b, a, b
}
