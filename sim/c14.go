package sim

import (
	"bytes"
	"context"
	"encoding/json"
	"fmt"
	"io"
	"net/http"
	"net/http/httptest"
	"net/url"
	"sort"
	"strings"

	"github.com/julienschmidt/httprouter"

	"github.com/ory/keto/internal/check"
	"github.com/ory/keto/internal/expand"
	"github.com/ory/keto/internal/relationtuple"
	"github.com/ory/keto/internal/x"
	"github.com/ory/keto/ketoapi"
)

// C14 – concurrent requests do not interfere with each other.
//
//	mode ""     (tier E): 2-6 requests (check, batch check, expand, list) started together in one
//	                      bubble; the tape interleaves all their storage calls; every result must
//	                      equal the result of the same request run alone.
//	mode "race" (-race build): a FRESH registry per run receives a burst of concurrent mixed
//	                      read/write requests through the real routers (first use of every lazily
//	                      initialised member included); a race report is a violation.

func init() { Props["C14"] = runC14 }

func runC14(env *Env, rc *RunCtx) {
	if rc.Mode == "race" {
		runC14Race(env, rc)
		return
	}
	if rc.Mode == "handlers" || rc.Mode == "statements" {
		runC14Handlers(env, rc)
		return
	}
	t := rc.CaseTape
	// configurations whose single-request answer cannot depend on the schedule:
	// rewrite-free, or rewrites without && and ! (limits non-binding)
	c := GenCase(t, GenOpts{Enc: -1, NoNegation: true, Gadgets: true, MaxTuples: 16})
	hasAnd := false
	for _, n := range c.Cfg.NS {
		for _, r := range n.Rels {
			var walk func(e *Expr)
			walk = func(e *Expr) {
				if e == nil {
					return
				}
				if e.Kind == ExAnd {
					hasAnd = true
				}
				for _, ch := range e.Children {
					walk(ch)
				}
			}
			walk(r.Rewrite)
		}
	}
	if hasAnd {
		rc.Rec.Skipped = "config-with-intersection"
		return
	}
	// two documents whose viewers go through their own group and through a SHARED
	// group chain: one request short-circuits on its own group (leaving stragglers
	// in the shared chain), the other needs the shared chain
	gadget := false
	if n0 := c.Cfg.NS[0]; c.Cfg.Enc == EncNone || (n0.FindRel("r0") != nil && n0.FindRel("r0").Rewrite == nil && !cfgTraverses(c.Cfg, n0.Name, "r0")) {
		if t.Bool(2, 3) {
			gadget = true
			ns := n0.Name
			set := func(o string) Subject { return Subject{Set: &SetRef{NS: ns, Obj: o, Rel: "r0"}} }
			c.Tuples = append(c.Tuples,
				Tuple{NS: ns, Obj: "docA", Rel: "r0", Sub: set("groupA")}, Tuple{NS: ns, Obj: "docA", Rel: "r0", Sub: set("shared")},
				Tuple{NS: ns, Obj: "docB", Rel: "r0", Sub: set("groupB")}, Tuple{NS: ns, Obj: "docB", Rel: "r0", Sub: set("shared")},
				// every membership is two hops below the set that is shared, so that the SQL
				// "found" shortcut does not answer before the visited set is consulted
				Tuple{NS: ns, Obj: "shared", Rel: "r0", Sub: set("deep")}, Tuple{NS: ns, Obj: "deep", Rel: "r0", Sub: set("deeper")}, Tuple{NS: ns, Obj: "deeper", Rel: "r0", Sub: Subject{ID: "bob"}},
				Tuple{NS: ns, Obj: "groupA", Rel: "r0", Sub: set("innerA")}, Tuple{NS: ns, Obj: "innerA", Rel: "r0", Sub: Subject{ID: "alice"}},
				Tuple{NS: ns, Obj: "groupB", Rel: "r0", Sub: Subject{ID: "carol"}})
			rc.Count("probe_shared_group_gadget", 1)
		}
	}
	rc.Rec.CaseHash = fmt.Sprintf("%016x", c.Hash())
	_, class, _, err := env.PrepCase(c, Limits{Depth: c01Depth, Width: 65535, BatchMax: 12, BatchPar: 3})
	if err != nil {
		env.T.Fatalf("harness: %v", err)
	}
	if class != "" {
		rc.Rec.Skipped = "config:" + class
		return
	}
	nReq := t.Range(2, 6)
	subs := []Subject{{ID: "u0"}, {ID: "u1"}, {ID: "u2"}, c.Query.Sub}
	mkQuery := func() (Tuple, bool) {
		x := c.Query
		if len(c.Tuples) > 0 && t.Bool(1, 2) {
			y := c.Tuples[t.Choose(len(c.Tuples))]
			x.NS, x.Obj, x.Rel = y.NS, y.Obj, y.Rel
		}
		x.Sub = subs[t.Choose(len(subs))]
		ref := RefCheck(c.Cfg, c.Tuples, x)
		if ref.NonStratified || ref.RewriteCycle || 10*ref.Reachable+10 > c01Depth {
			return x, false
		}
		return x, true
	}
	type spec struct {
		kind string
		desc string
		mk   func() *Request
	}
	var specs []spec
	if gadget {
		ns := c.Cfg.NS[0].Name
		for _, q := range []Tuple{{NS: ns, Obj: "docA", Rel: "r0", Sub: Subject{ID: "alice"}}, {NS: ns, Obj: "docB", Rel: "r0", Sub: Subject{ID: "bob"}}} {
			its, err := env.Internal(q)
			if err != nil {
				env.T.Fatalf("harness: %v", err)
			}
			it := its[0]
			specs = append(specs, spec{"check", "check " + q.String(), func() *Request { return &Request{Kind: "check", Tuple: it} }})
		}
	}
	for i := 0; i < nReq; i++ {
		switch t.Weighted(4, 2, 2, 2) {
		case 0:
			q, ok := mkQuery()
			if !ok {
				rc.Rec.Skipped = "limits-could-bind"
				return
			}
			its, err := env.Internal(q)
			if err != nil {
				env.T.Fatalf("harness: %v", err)
			}
			specs = append(specs, spec{"check", "check " + q.String(), func() *Request { return &Request{Kind: "check", Tuple: its[0]} }})
		case 1:
			k := t.Range(2, 4)
			var api []*ketoapi.RelationTuple
			d := "batch"
			for j := 0; j < k; j++ {
				q, ok := mkQuery()
				if !ok {
					rc.Rec.Skipped = "limits-could-bind"
					return
				}
				if _, err := env.Internal(q); err != nil {
					env.T.Fatalf("harness: %v", err)
				}
				api = append(api, q.API())
				d += " " + q.String()
			}
			specs = append(specs, spec{"batch", d, func() *Request { return &Request{Kind: "batch", Batch: api} }})
		case 2:
			x := c.Query
			if len(c.Tuples) > 0 {
				y := c.Tuples[t.Choose(len(c.Tuples))]
				x.NS, x.Obj, x.Rel = y.NS, y.Obj, y.Rel
			}
			x.Sub = Subject{ID: "u0"}
			its, err := env.Internal(x)
			if err != nil {
				env.T.Fatalf("harness: %v", err)
			}
			ss := &relationtuple.SubjectSet{Namespace: x.NS, Object: its[0].Object, Relation: x.Rel}
			specs = append(specs, spec{"expand", fmt.Sprintf("expand %s:%s#%s", x.NS, x.Obj, x.Rel), func() *Request { return &Request{Kind: "expand", Subj: ss, Depth: 0} }})
		default:
			x := c.Query
			if len(c.Tuples) > 0 {
				x = c.Tuples[t.Choose(len(c.Tuples))]
			}
			its, err := env.Internal(Tuple{NS: x.NS, Obj: x.Obj, Rel: x.Rel, Sub: Subject{ID: "u0"}})
			if err != nil {
				env.T.Fatalf("harness: %v", err)
			}
			ns, rel := x.NS, x.Rel
			q := &relationtuple.RelationQuery{Namespace: &ns, Relation: &rel}
			if t.Bool(1, 2) {
				q.Object = &its[0].Object
			}
			specs = append(specs, spec{"list", fmt.Sprintf("list %s:*#%s", ns, rel), func() *Request { return &Request{Kind: "list", Query: q} }})
		}
	}
	// the very same request twice: the two need the same storage calls at the same time
	dupOrig := -1
	if len(specs) > 0 && t.Bool(1, 2) {
		dupOrig = t.Choose(len(specs))
		d := specs[dupOrig]
		specs = append(specs, spec{d.kind, d.desc + " (duplicate)", d.mk})
		rc.Count("probe_duplicate_requests", 1)
	}
	sig := func(r *Request) string {
		switch v := r.result.(type) {
		case CheckOut:
			return fmt.Sprint(v)
		case []CheckOut:
			return fmt.Sprint(v)
		case ExpandOut:
			return env.fromKetoTree(v.Tree).shape() + " " + v.Err
		case ListOut:
			return fmt.Sprintf("%d %s %s", v.N, v.Sig, v.Err)
		case error:
			return "error: " + v.Error()
		}
		return "<no result>"
	}
	// alone
	alone := make([]string, len(specs))
	for i, s := range specs {
		rq := s.mk()
		r := env.Exec(NewTape(Mix(rc.execSeed, 555, uint64(i))), []*Request{rq}, NoFaults())
		rc.Rec.Execs++
		if !r.Returned {
			rc.Rec.Skipped = "alone-run-did-not-return" // C15's business
			return
		}
		alone[i] = sig(rq)
	}
	kinds := map[string]bool{}
	for _, s := range specs {
		kinds[s.kind] = true
	}
	rc.Rec.NonTrivial = len(kinds) >= 2
	nExec := execsFor(rc.Tier, 4, 12)
	for e := 0; e < nExec; e++ {
		if rc.SkipExec(e) {
			continue
		}
		et := rc.ExecTape(e)
		plan := NoFaults()
		if et.Bool(1, 2) {
			plan = WithStragglers()
		}
		// In a third of the executions one client goes away: the request in front is
		// cancelled at a tape-chosen instant (often one that has an identical twin
		// in flight). The others must not notice.
		order := make([]int, len(specs))
		for i := range order {
			order[i] = i
		}
		cancelled := false
		if et.Bool(1, 3) {
			cancelled = true
			if dupOrig > 0 && et.Bool(3, 4) {
				order[0], order[dupOrig] = order[dupOrig], order[0]
			}
			plan.CancelAfter = []int{0, 1, 1, 2, 3, 5}[et.Choose(6)]
			rc.Count("probe_one_request_cancelled", 1)
			if dupOrig >= 0 && order[0] == dupOrig {
				rc.Count("probe_cancelled_request_has_twin", 1)
			}
		}
		var reqs []*Request
		for _, i := range order {
			reqs = append(reqs, specs[i].mk())
		}
		// in half of the executions the requests do not all arrive at once
		if et.Bool(1, 2) {
			for range reqs {
				plan.StartAfter = append(plan.StartAfter, []int{0, 0, 1, 2, 3, 5, 8}[et.Choose(7)])
			}
		}
		r := env.Exec(et, reqs, plan)
		rc.Count("stragglers_completed_late", r.Late)
		rc.Rec.Execs++
		rc.AddSchedule(r.TraceHash)
		rc.Rec.ParkedSets += r.ParkedSets
		if r.MaxParked >= 2 {
			rc.Count("probe_requests_interleaved", 1)
		}
		w := func(extra map[string]any) map[string]any {
			d := c.Describe()
			var rs []string
			for pos, i := range order {
				c := ""
				if cancelled && pos == 0 {
					c = " (cancelled by its client)"
				}
				rs = append(rs, fmt.Sprintf("r%d: %s%s", pos, specs[i].desc, c))
			}
			d["requests"] = rs
			d["schedule"] = r.Trace
			for k, v := range extra {
				d[k] = v
			}
			return d
		}
		if !r.Returned && r.Outcome == DriveStepLimit {
			rc.Count("inconclusive_step_limit", 1)
			return
		}
		if !r.Returned {
			rc.Violate("no-result", "concurrent", "concurrent requests did not all return", w(nil), e, et)
			return
		}
		for pos, rq := range reqs {
			i := order[pos]
			if cancelled && pos == 0 {
				continue // an error or the answer it already had: C15's business
			}
			if got := sig(rq); got != alone[i] {
				rc.Violate("interference", specs[i].kind, fmt.Sprintf("request r%d (%s) returned %q when run concurrently and %q when run alone", pos, specs[i].desc, got, alone[i]), w(nil), e, et)
				return
			}
		}
		rc.Note(fmt.Sprintf("e=%d %016x", e, r.TraceHash))
	}
	for k := range kinds {
		rc.Count("kind_"+k, 1)
	}
	if rc.WantSample {
		d := c.Describe()
		var rs []string
		for i, s := range specs {
			rs = append(rs, fmt.Sprintf("r%d: %s => %s", i, s.desc, alone[i]))
		}
		d["requests_and_alone_results"] = rs
		rc.Rec.Sample = d
	}
}

// race mode: runs in the -race binary. A FRESH registry (no lazily initialised
// member touched) serves a set of requests through the real REST handlers
// (built on the L1-wrapped dependencies, on private httprouters) inside one
// scheduler bubble. All requests start in the same quantum and park at their
// first storage call, so the code each runs before and between storage calls is
// unordered with respect to the others; the race detector works on
// happens-before, so unordered accesses are flagged without real parallelism and
// - the schedule being the tape's - reproducibly. GORACE halts the worker on the
// first report; the driver turns the death into a violation whose site is taken
// from the report.
func runC14Race(_ *Env, rc *RunCtx) {
	t := rc.CaseTape
	env := NewEnv(rc.T, EnvOpts{NoWarm: true})
	defer env.Close()
	// half of the bursts run against a configuration with permissions (a union
	// that lists a traverse BEFORE a plain relation, an intersection, a negation):
	// the namespace AST is shared by all requests, and nothing a request does
	// with it may be visible to another
	raceCfg := plainCfg
	withPerms := t.Bool(1, 2)
	if withPerms {
		ty := []TypeRef{{NS: "N1"}, {NS: "N0", Rel: "r0"}}
		// (Go AST or OPL with minimal parentheses: the operands are direct children of the union)
		raceCfg = &Config{Enc: []int{EncAST, EncOPLMin}[t.Choose(2)], NS: []*NSDef{{Name: "N1", Rels: []*RelDef{{Name: "r0", Types: []TypeRef{{NS: "N1"}}}, {Name: "r1", Types: []TypeRef{{NS: "N1"}}}}},
			{Name: "N0", Rels: []*RelDef{{Name: "r0", Types: ty}, {Name: "r1", Types: []TypeRef{{NS: "N0"}}},
				{Name: "p0", Rewrite: &Expr{Kind: ExOr, Children: []*Expr{{Kind: ExTraverse, Rel: "r1", Computed: "p0", ViaPermits: true}, {Kind: ExIncludes, Rel: "r0"}}}},
				{Name: "p1", Rewrite: &Expr{Kind: ExAnd, Children: []*Expr{{Kind: ExPermits, Rel: "p0"}, {Kind: ExNot, Children: []*Expr{{Kind: ExTraverse, Rel: "r1", Computed: "r0"}}}}}}}}}}
		rc.Count("probe_burst_on_config_with_permissions", 1)
	}
	if _, err := env.ApplyConfig(raceCfg); err != nil {
		rc.T.Fatalf("config: %v", err)
	}
	deps := env.Deps
	rr := &x.ReadRouter{Router: httprouter.New()}
	wr := &x.WriteRouter{Router: httprouter.New()}
	check.NewHandler(deps).RegisterReadRoutes(rr)
	expand.NewHandler(deps).RegisterReadRoutes(rr)
	rth := relationtuple.NewHandler(deps)
	rth.RegisterReadRoutes(rr)
	rth.RegisterWriteRoutes(wr)
	dom := DefaultDomain
	dom.AllowBad = false
	n := t.Range(2, 6)
	var reqs []*Request
	var desc []string
	wrote := false
	for i := 0; i < n; i++ {
		var h http.Handler = rr
		method, target := "GET", ""
		var body []byte
		tu := dom.Tuple(t)
		tu2 := dom.Tuple(t)
		// a third of the requests name namespaces the server does not know (each
		// its own): error paths share state too
		if t.Bool(1, 3) {
			tu.NS = fmt.Sprintf("nope%d", i)
			tu2.NS = fmt.Sprintf("nope%db", i)
			rc.Count("probe_unknown_namespace_in_burst", 1)
		} else if withPerms && t.Bool(2, 3) {
			tu.NS, tu.Rel = "N0", []string{"p0", "p1"}[t.Choose(2)]
			tu2.NS, tu2.Rel = "N0", []string{"p0", "p1"}[t.Choose(2)]
		}
		k := t.Choose(7)
		if withPerms && i < 2 {
			// at least two requests evaluate a permission of the shared configuration
			k = []int{1, 5, 2}[t.Choose(3)]
			tu.NS, tu.Rel = "N0", []string{"p0", "p1"}[t.Choose(2)]
			tu2.NS, tu2.Rel = "N0", []string{"p0", "p1"}[t.Choose(2)]
		}
		switch {
		case k == 6:
			// an incomplete check: a different key is missing in every request
			v := tupleURL(tu)
			miss := []string{"namespace", "object", "relation", "subject_id"}[i%4]
			v.Del(miss)
			if miss == "subject_id" {
				v.Del("subject_set.namespace")
				v.Del("subject_set.object")
				v.Del("subject_set.relation")
			}
			target = "/relation-tuples/check/openapi?" + v.Encode()
			rc.Count("probe_incomplete_check_in_burst", 1)
		case k == 0 && !wrote:
			wrote = true // at most one writer: a second one would wait on pop's transaction mutex, which is not a scheduling point
			h, method, target = wr, "PUT", "/admin/relation-tuples"
			body, _ = json.Marshal(tu.API())
		case k == 1:
			target = "/relation-tuples/check/openapi?" + tupleURL(tu).Encode()
		case k == 2:
			method, target = "POST", "/relation-tuples/batch/check"
			body, _ = json.Marshal(map[string]any{"tuples": []any{tu.API(), tu2.API()}})
		case k == 3:
			target = "/relation-tuples/expand?" + url.Values{"namespace": {tu.NS}, "object": {tu.Obj}, "relation": {tu.Rel}}.Encode()
		case k == 4:
			target = "/relation-tuples?" + url.Values{"namespace": {tu.NS}}.Encode()
		default:
			method, target = "POST", "/relation-tuples/check"
			body, _ = json.Marshal(tu.API())
		}
		desc = append(desc, method+" "+target)
		m, tg, b, hh := method, target, body, h
		reqs = append(reqs, &Request{Kind: "fn", Fn: func(ctx context.Context) any {
			var rd io.Reader = http.NoBody
			if b != nil {
				rd = bytes.NewReader(b)
			}
			req := httptest.NewRequest(m, "http://keto.sim"+tg, rd).WithContext(ctx)
			rec := httptest.NewRecorder()
			hh.ServeHTTP(rec, req)
			return rec.Code
		}})
	}
	et := rc.ExecTape(0)
	astBefore := configFingerprint(env)
	r := env.Exec(et, reqs, NoFaults())
	rc.Rec.Execs += n
	// the namespace configuration is shared by all requests: none of them may
	// change it (a change is what the next request would see)
	if astAfter := configFingerprint(env); astAfter != astBefore {
		rc.Violate("shared-config-mutated", "race-burst", "the namespace configuration served by the manager differs after the burst of requests", map[string]any{"burst": desc, "before": astBefore, "after": astAfter}, 0, et)
		return
	}
	rc.Rec.NonTrivial = true
	rc.Rec.CaseHash = fmt.Sprintf("%016x", fnv64(fmt.Sprint(desc), 0))
	rc.Count("concurrent_requests", n)
	if r.MaxParked >= 2 {
		rc.Count("probe_requests_interleaved", 1)
	}
	if !r.Returned {
		rc.Violate("no-result", "race-burst", "requests did not all return", map[string]any{"burst": desc, "schedule": r.Trace}, 0, et)
		return
	}
	if rc.WantSample {
		rc.Rec.Sample = map[string]any{"burst": desc, "schedule": r.Trace}
	}
}

func cfgTraverses(cfg *Config, ns, rel string) bool {
	n := cfg.FindNS(ns)
	found := false
	var walk func(e *Expr)
	walk = func(e *Expr) {
		if e == nil {
			return
		}
		if e.Kind == ExTraverse && e.Rel == rel {
			found = true
		}
		for _, c := range e.Children {
			walk(c)
		}
	}
	for _, r := range n.Rels {
		walk(r.Rewrite)
	}
	return found
}

// mode handlers: the concurrent requests go through the real REST handlers
// (check with different max-depth values for the SAME tuple on a chain where
// depth decides, batch check, expand, list), built on the L1-wrapped
// dependencies on private routers, inside the scheduler bubble. Every
// (status, body) must equal the one the request gets when it runs alone.
func runC14Handlers(env *Env, rc *RunCtx) {
	t := rc.CaseTape
	env.Wipe()
	env.UseConfigCached(plainCfg, Limits{Depth: 10, Width: 1000, BatchMax: 12, BatchPar: 3})
	theGen.Reseed(uint64(t.Choose(1<<30)), t.Choose(3))
	dom := DefaultDomain
	dom.AllowBad = false
	var store []Tuple
	for i := 0; i < t.Range(2, 10); i++ {
		store = append(store, dom.Tuple(t))
	}
	// a chain: tree-shaped, so that the answer for a given max-depth is one value
	k := t.Range(2, 5)
	prev := SetRef{NS: "N0", Obj: "chain", Rel: "r0"}
	for i := 0; i < k; i++ {
		nx := SetRef{NS: "N0", Obj: fmt.Sprintf("c%d", i), Rel: "r0"}
		store = append(store, Tuple{NS: prev.NS, Obj: prev.Obj, Rel: prev.Rel, Sub: Subject{Set: &nx}})
		prev = nx
	}
	store = append(store, Tuple{NS: prev.NS, Obj: prev.Obj, Rel: prev.Rel, Sub: Subject{ID: "zed"}})
	if err := env.Load(store); err != nil {
		env.T.Fatalf("harness: %v", err)
	}
	env.L1.pageSize.Store(0)
	deps := env.Deps
	rr := &x.ReadRouter{Router: httprouter.New()}
	check.NewHandler(deps).RegisterReadRoutes(rr)
	expand.NewHandler(deps).RegisterReadRoutes(rr)
	relationtuple.NewHandler(deps).RegisterReadRoutes(rr)
	type hreq struct {
		desc, method, target string
		body                 []byte
	}
	var hs []hreq
	chainT := Tuple{NS: "N0", Obj: "chain", Rel: "r0", Sub: Subject{ID: "zed"}}
	depths := []int{1, 2, 3, 4, 5, 6, 7, 9}
	nDepth := t.Range(2, 3)
	for i := 0; i < nDepth; i++ {
		d := depths[t.Choose(len(depths))]
		v := tupleURL(chainT)
		v.Set("max-depth", fmt.Sprint(d))
		if t.Bool(1, 2) {
			hs = append(hs, hreq{desc: fmt.Sprintf("GET check chain max-depth=%d", d), method: "GET", target: "/relation-tuples/check/openapi?" + v.Encode()})
		} else {
			b, _ := json.Marshal(chainT.API())
			hs = append(hs, hreq{desc: fmt.Sprintf("POST check chain max-depth=%d", d), method: "POST", target: fmt.Sprintf("/relation-tuples/check?max-depth=%d", d), body: b})
		}
	}
	for i := 0; i < t.Range(0, 3); i++ {
		tu := store[t.Choose(len(store))]
		switch t.Choose(4) {
		case 0:
			q := tu
			q.Sub = Subject{ID: pick(t, dom.Users)}
			hs = append(hs, hreq{desc: "GET check " + q.String(), method: "GET", target: "/relation-tuples/check/openapi?" + tupleURL(q).Encode()})
		case 1:
			b, _ := json.Marshal(map[string]any{"tuples": []any{tu.API(), chainT.API()}})
			hs = append(hs, hreq{desc: "POST batch", method: "POST", target: fmt.Sprintf("/relation-tuples/batch/check?max-depth=%d", depths[t.Choose(len(depths))]), body: b})
		case 2:
			hs = append(hs, hreq{desc: "GET expand " + tu.String(), method: "GET", target: "/relation-tuples/expand?" + url.Values{"namespace": {tu.NS}, "object": {tu.Obj}, "relation": {tu.Rel}}.Encode()})
		default:
			hs = append(hs, hreq{desc: "GET list " + tu.NS, method: "GET", target: "/relation-tuples?" + url.Values{"namespace": {tu.NS}}.Encode()})
		}
	}
	mk := func(h hreq) *Request {
		return &Request{Kind: "fn", Fn: func(ctx context.Context) any {
			var rd io.Reader = http.NoBody
			if h.body != nil {
				rd = bytes.NewReader(h.body)
			}
			req := httptest.NewRequest(h.method, "http://keto.sim"+h.target, rd).WithContext(ctx)
			rec := httptest.NewRecorder()
			rr.ServeHTTP(rec, req)
			return fmt.Sprintf("%d %s", rec.Code, strings.TrimSpace(rec.Body.String()))
		}}
	}
	alone := make([]string, len(hs))
	for i, h := range hs {
		rq := mk(h)
		r := env.Exec(NewTape(Mix(rc.execSeed, 556, uint64(i))), []*Request{rq}, NoFaults())
		rc.Rec.Execs++
		if !r.Returned {
			rc.Rec.Skipped = "alone-run-did-not-return"
			return
		}
		alone[i], _ = rq.result.(string)
	}
	distinctAnswers := map[string]bool{}
	for i := 0; i < nDepth; i++ {
		distinctAnswers[alone[i]] = true
	}
	rc.Rec.NonTrivial = len(distinctAnswers) >= 2
	if rc.Rec.NonTrivial {
		rc.Count("probe_depth_decides", 1)
	}
	rc.Rec.CaseHash = fmt.Sprintf("%016x", fnv64(fmt.Sprint(store, hs), 0))
	// mode statements: every SQL statement is a scheduling point as well (the
	// requests interleave inside one storage call, e.g. between the relationship
	// query and the name lookups of a listing), and in half of the runs an earlier
	// client has failed first: one list / expand request meets a storage fault at
	// one of its SQL statements before the concurrent phase starts. What a failed
	// request leaves behind in the process must not reach the others.
	stmts := rc.Mode == "statements"
	if stmts && t.Bool(1, 2) {
		victims := []hreq{{desc: "GET list N0", method: "GET", target: "/relation-tuples?" + url.Values{"namespace": {"N0"}}.Encode()},
			{desc: "GET expand chain", method: "GET", target: "/relation-tuples/expand?" + url.Values{"namespace": {"N0"}, "object": {"chain"}, "relation": {"r0"}, "max-depth": {"5"}}.Encode()}}
		vh := victims[t.Choose(len(victims))]
		p0 := NoFaults()
		p0.CountSQL = true
		cnt := env.Exec(NewTape(Mix(rc.execSeed, 557)), []*Request{mk(vh)}, p0)
		rc.Rec.Execs++
		if M := cnt.L2Statements; M > 0 {
			pf := NoFaults()
			pf.L2At = 1 + t.Choose(M)
			pf.L2Kind = []L2Fault{L2IO, L2Ctx, L2Busy}[t.Choose(3)]
			fr := env.Exec(NewTape(Mix(rc.execSeed, 558)), []*Request{mk(vh)}, pf)
			theHub.Heal()
			rc.Rec.Execs++
			if fr.L2Fired > 0 {
				rc.Count("probe_earlier_request_failed", 1)
				rc.Count("fault_sql_"+pf.L2Kind.String(), 1)
			}
		}
	}
	nExec := execsFor(rc.Tier, 4, 12)
	for e := 0; e < nExec; e++ {
		if rc.SkipExec(e) {
			continue
		}
		et := rc.ExecTape(e)
		var reqs []*Request
		for _, h := range hs {
			reqs = append(reqs, mk(h))
		}
		plan := NoFaults()
		plan.ParkSQL = stmts
		if stmts {
			plan.Sticky = []int{0, 0, 0, 4, 16, 64}[et.Choose(6)]
		}
		if et.Bool(1, 3) {
			for range reqs {
				plan.StartAfter = append(plan.StartAfter, []int{0, 0, 1, 2, 3}[et.Choose(5)])
			}
		}
		r := env.Exec(et, reqs, plan)
		rc.Rec.Execs++
		rc.AddSchedule(r.TraceHash)
		if r.MaxParked >= 2 {
			rc.Count("probe_requests_interleaved", 1)
		}
		if !r.Returned {
			if r.Outcome == DriveStepLimit {
				return
			}
			rc.Violate("no-result", "handlers", "concurrent handler requests did not all return", map[string]any{"requests": hs, "schedule": r.Trace}, e, et)
			return
		}
		for i, rq := range reqs {
			got, _ := rq.result.(string)
			if got != alone[i] {
				var ds []string
				for j, h := range hs {
					ds = append(ds, fmt.Sprintf("r%d: %s => alone %q", j, h.desc, alone[j]))
				}
				rc.Violate("interference", "handler", fmt.Sprintf("request r%d (%s) answered %q when run concurrently and %q when run alone", i, hs[i].desc, got, alone[i]),
					map[string]any{"requests": ds, "schedule": r.Trace, "chain_length": k}, e, et)
				return
			}
		}
	}
	rc.Count("handler_requests", len(hs))
	if rc.WantSample {
		var ds []string
		for j, h := range hs {
			ds = append(ds, fmt.Sprintf("r%d: %s => %q", j, h.desc, alone[j]))
		}
		rc.Rec.Sample = map[string]any{"requests_and_alone_results": ds, "chain_length": k}
	}
}

// configFingerprint renders the namespaces the manager serves - relations,
// types and rewrites in their stored order (normFromKeto keeps the order of
// children; it is not flattened here).
func configFingerprint(env *Env) string {
	nm, err := env.Reg.Config(env.Ctx).NamespaceManager()
	if err != nil {
		return "error: " + err.Error()
	}
	nn, err := nm.Namespaces(env.Ctx)
	if err != nil {
		return "error: " + err.Error()
	}
	sort.Slice(nn, func(i, j int) bool { return nn[i].Name < nn[j].Name })
	var sb strings.Builder
	for _, n := range nn {
		fmt.Fprintf(&sb, "%s{", n.Name)
		for _, r := range n.Relations {
			fmt.Fprintf(&sb, "%s:", r.Name)
			for _, ty := range r.Types {
				fmt.Fprintf(&sb, "%s#%s|", ty.Namespace, ty.Relation)
			}
			if r.SubjectSetRewrite != nil {
				sb.WriteString("=" + normFromKeto(r.SubjectSetRewrite).String())
			}
			sb.WriteString(";")
		}
		sb.WriteString("} ")
	}
	return sb.String()
}
