package sim

import (
	"fmt"
	"time"

	"github.com/ory/keto/internal/relationtuple"
	rts "github.com/ory/keto/proto/ory/keto/relation_tuples/v1alpha2"
)

// C09 – expand returns a sound and complete picture of a subject set (tier E,
// sequential: the expand engine has no goroutines; what varies is the storage
// order, i.e. which path reaches a node first, and the paging).

func init() { Props["C09"] = runC09 }

type xnode struct {
	Sub      Subject
	Type     string
	Children []*xnode
}

func (e *Env) fromKetoSubject(s relationtuple.Subject) Subject {
	switch v := s.(type) {
	case *relationtuple.SubjectID:
		return Subject{ID: e.L1.names.get(v.ID)}
	case *relationtuple.SubjectSet:
		return Subject{Set: &SetRef{NS: v.Namespace, Obj: e.L1.names.get(v.Object), Rel: v.Relation}}
	}
	return Subject{Nil: true}
}

func (e *Env) fromKetoTree(t *relationtuple.Tree) *xnode {
	if t == nil {
		return nil
	}
	n := &xnode{Sub: e.fromKetoSubject(t.Subject), Type: string(t.Type)}
	for _, c := range t.Children {
		n.Children = append(n.Children, e.fromKetoTree(c))
	}
	return n
}

func fromExpandNode(n *expandNode) *xnode {
	if n == nil {
		return nil
	}
	x := &xnode{Type: n.Type}
	if n.Tuple != nil {
		if n.Tuple.SubjectSet != nil {
			x.Sub = Subject{Set: &SetRef{NS: n.Tuple.SubjectSet.Namespace, Obj: n.Tuple.SubjectSet.Object, Rel: n.Tuple.SubjectSet.Relation}}
		} else if n.Tuple.SubjectID != nil {
			x.Sub = Subject{ID: *n.Tuple.SubjectID}
		}
	}
	for _, c := range n.Children {
		x.Children = append(x.Children, fromExpandNode(c))
	}
	return x
}

func fromProtoTree(n *rts.SubjectTree) *xnode {
	if n == nil {
		return nil
	}
	x := &xnode{Type: n.NodeType.String()}
	switch s := n.GetSubject().GetRef().(type) {
	case *rts.Subject_Id:
		x.Sub = Subject{ID: s.Id}
	case *rts.Subject_Set:
		x.Sub = Subject{Set: &SetRef{NS: s.Set.Namespace, Obj: s.Set.Object, Rel: s.Set.Relation}}
	}
	for _, c := range n.Children {
		x.Children = append(x.Children, fromProtoTree(c))
	}
	return x
}

func (n *xnode) shape() string {
	if n == nil {
		return "<nil>"
	}
	s := n.Sub.String()
	if len(n.Children) > 0 {
		s += "["
		for i, c := range n.Children {
			if i > 0 {
				s += " "
			}
			s += c.shape()
		}
		s += "]"
	}
	return s
}

func (n *xnode) height() int {
	if n == nil {
		return 0
	}
	h := 0
	for _, c := range n.Children {
		if ch := c.height(); ch > h {
			h = ch
		}
	}
	return h + 1
}

// dist: shortest distance (edges) from the root set to every subject
func refDistances(tuples []Tuple, root SetRef) map[string]int {
	d := map[string]int{}
	type item struct {
		s SetRef
		k int
	}
	seen := map[SetRef]bool{root: true}
	q := []item{{root, 0}}
	for len(q) > 0 {
		it := q[0]
		q = q[1:]
		for _, t := range tuples {
			if t.NS != it.s.NS || t.Obj != it.s.Obj || t.Rel != it.s.Rel {
				continue
			}
			key := t.Sub.String()
			if _, ok := d[key]; !ok {
				d[key] = it.k + 1
			}
			if t.Sub.Set != nil && !seen[*t.Sub.Set] {
				seen[*t.Sub.Set] = true
				q = append(q, item{*t.Sub.Set, it.k + 1})
			}
		}
	}
	return d
}

func genExpandCase(t *Tape, big bool) ([]Tuple, SetRef) {
	ns := []string{"N0", "N1"}
	rels := []string{"r0", "r1"}
	nObj := t.Range(2, 6)
	mk := func() SetRef {
		return SetRef{NS: pick(t, ns), Obj: fmt.Sprintf("o%d", t.Choose(nObj)), Rel: pick(t, rels)}
	}
	var ts []Tuple
	n := t.Range(1, 22)
	for i := 0; i < n; i++ {
		from := mk()
		x := Tuple{NS: from.NS, Obj: from.Obj, Rel: from.Rel}
		if t.Bool(2, 5) {
			x.Sub = Subject{ID: fmt.Sprintf("u%d", t.Choose(5))}
			if t.Bool(1, 12) {
				x.Sub = Subject{ID: ""} // the empty string is a legal name
			}
		} else {
			s := mk()
			if t.Bool(1, 6) {
				s.Rel = ""
			}
			x.Sub = Subject{Set: &s}
		}
		if i > 0 && t.Bool(1, 10) {
			x = ts[t.Choose(len(ts))]
		}
		ts = append(ts, x)
	}
	root := mk()
	if len(ts) > 0 && t.Bool(4, 5) {
		x := ts[t.Choose(len(ts))]
		root = SetRef{NS: x.NS, Obj: x.Obj, Rel: x.Rel}
	}
	// a chain gadget so that depth matters
	if t.Bool(1, 2) {
		k := t.Range(2, 6)
		prev := root
		for i := 0; i < k; i++ {
			nx := SetRef{NS: pick(t, ns), Obj: fmt.Sprintf("c%d", i), Rel: pick(t, rels)}
			ts = append(ts, Tuple{NS: prev.NS, Obj: prev.Obj, Rel: prev.Rel, Sub: Subject{Set: &nx}})
			if t.Bool(1, 3) {
				ts = append(ts, Tuple{NS: nx.NS, Obj: nx.Obj, Rel: nx.Rel, Sub: Subject{ID: fmt.Sprintf("cu%d", i)}})
			}
			// a shortcut to a later chain node: the same set reachable at two depths
			if i >= 2 && t.Bool(1, 2) {
				ts = append(ts, Tuple{NS: root.NS, Obj: root.Obj, Rel: root.Rel, Sub: Subject{Set: &nx}})
			}
			prev = nx
		}
		ts = append(ts, Tuple{NS: prev.NS, Obj: prev.Obj, Rel: prev.Rel, Sub: Subject{ID: "deep"}})
		if t.Bool(1, 3) {
			ts = append(ts, Tuple{NS: prev.NS, Obj: prev.Obj, Rel: prev.Rel, Sub: Subject{Set: &root}}) // cycle
		}
	}
	if big {
		for i := 0; i < 101+t.Choose(5); i++ {
			ts = append(ts, Tuple{NS: root.NS, Obj: root.Obj, Rel: root.Rel, Sub: Subject{ID: fmt.Sprintf("w%d", i)}})
		}
	} else if t.Bool(1, 3) {
		for i := 0; i < t.Range(3, 9); i++ {
			ts = append(ts, Tuple{NS: root.NS, Obj: root.Obj, Rel: root.Rel, Sub: Subject{ID: fmt.Sprintf("w%d", i)}})
		}
	}
	for i := len(ts) - 1; i > 0; i-- {
		j := t.Choose(i + 1)
		ts[i], ts[j] = ts[j], ts[i]
	}
	return ts, root
}

var plainCfgGone = &Config{Enc: EncNone, NS: []*NSDef{{Name: "N0"}, {Name: "N1"}, {Name: "Gone"}}}

func runC09(env *Env, rc *RunCtx) {
	t := rc.CaseTape
	big := rc.Run%200 == 7 // one real > 100 children case now and then
	tuples, root := genExpandCase(t, big)
	g := []int{1, 2, 3, 4, 5, 8, 50}[t.Choose(7)]
	d := []int{-2, 0, 1, 2, 3, 4, 5, 7, 100}[t.Choose(9)]
	eff := g
	if d > 0 && d <= g {
		eff = d
	}
	page := 0
	if !big && t.Bool(2, 3) {
		page = t.Range(1, 3)
	}
	orderSeed, order := uint64(t.Choose(1<<30)), t.Choose(3)
	// one case in eight: some nodes also hold subject sets of a namespace ("Gone")
	// that is taken out of the configuration after the relationships were written.
	// They are relationships like any other: the tree shows them (as leaves that
	// lead nowhere) and everything stored after them
	ghost := !big && len(tuples) > 0 && t.Bool(1, 8)
	lim := Limits{Depth: g, Width: 1000}
	if ghost {
		k := t.Range(1, 4)
		for i := 0; i < k; i++ {
			x := tuples[t.Choose(len(tuples))]
			gt := Tuple{NS: x.NS, Obj: x.Obj, Rel: x.Rel, Sub: Subject{Set: &SetRef{NS: "Gone", Obj: fmt.Sprintf("g%d", i), Rel: "m"}}}
			at := t.Choose(len(tuples) + 1)
			tuples = append(tuples[:at:at], append([]Tuple{gt}, tuples[at:]...)...)
		}
		rc.Count("probe_relationships_of_a_removed_namespace", 1)
	}
	withGone := func(f func() error) error {
		if !ghost {
			return f()
		}
		env.UseConfigCached(plainCfgGone, lim)
		err := f()
		env.UseConfigCached(plainCfg, lim)
		return err
	}
	env.Wipe()
	env.UseConfigCached(plainCfg, lim)
	if err := withGone(func() error { return env.LoadOrdered(tuples, orderSeed, order) }); err != nil {
		env.T.Fatalf("harness: load: %v", err)
	}
	env.L1.pageSize.Store(int64(page))
	rootT := Tuple{NS: root.NS, Obj: root.Obj, Rel: root.Rel, Sub: Subject{ID: "u0"}}
	its, err := env.Internal(rootT)
	if err != nil {
		env.T.Fatalf("harness: %v", err)
	}
	rootSub := &relationtuple.SubjectSet{Namespace: root.NS, Object: its[0].Object, Relation: root.Rel}
	rc.Rec.CaseHash = fmt.Sprintf("%016x", fnv64(fmt.Sprint(tuples, root, g, d), 0))
	dist := refDistances(tuples, root)
	inT := map[string]bool{}
	for _, x := range tuples {
		inT[x.String()] = true
	}
	desc := func(extra map[string]any) map[string]any {
		var ts []string
		for i, x := range tuples {
			if i >= 60 {
				ts = append(ts, fmt.Sprintf("... %d more", len(tuples)-60))
				break
			}
			ts = append(ts, x.String())
		}
		m := map[string]any{"tuples": ts, "expand": fmt.Sprint(root), "global_max_depth": g, "request_max_depth": d, "effective_depth": eff, "engine_page_size": page, "order": []string{"random", "asc", "desc"}[order]}
		for k, v := range extra {
			m[k] = v
		}
		return m
	}
	nExec := execsFor(rc.Tier, 6, 24)
	if big {
		nExec = 2
	}
	cur := -1
	maxDist := 0
	for _, k := range dist {
		if k > maxDist {
			maxDist = k
		}
	}
	rc.Rec.NonTrivial = maxDist >= 2
	if maxDist+1 > eff {
		rc.Count("probe_depth_binding", 1)
	}
	if big {
		rc.Count("probe_over_100_children", 1)
	}
	var firstShape string
	for e := 0; e < nExec; e++ {
		if rc.SkipExec(e) {
			continue
		}
		if e != cur && e > 0 {
			if err := withGone(func() error { return env.Reload(tuples, Mix(orderSeed, uint64(e)), (order+e)%3) }); err != nil {
				env.T.Fatalf("harness: reload: %v", err)
			}
		}
		cur = e
		et := rc.ExecTape(e)
		req := &Request{Kind: "expand", Subj: rootSub, Depth: d}
		plan := NoFaults()
		plan.MaxSteps = 5000
		r := env.Exec(et, []*Request{req}, plan)
		rc.Rec.Execs++
		rc.AddSchedule(r.TraceHash)
		out, _ := req.result.(ExpandOut)
		if !r.Returned {
			rc.Violate("no-termination", "expand", fmt.Sprintf("BuildTree did not return within %d storage calls", r.Calls), desc(nil), e, et)
			return
		}
		if out.Err != "" {
			rc.Violate("unexpected-error", "expand", out.Err, desc(nil), e, et)
			return
		}
		tree := env.fromKetoTree(out.Tree)
		w := func(extra map[string]any) map[string]any {
			m := desc(map[string]any{"tree": tree.shape(), "storage_calls": r.Calls})
			for k, v := range extra {
				m[k] = v
			}
			return m
		}
		if rc.Mode == "faults" && !c09Faults(env, rc, e, et, req.Subj, d, tree.shape(), r.Calls, w) {
			return
		}
		if e == 0 {
			firstShape = tree.shape()
		} else if tree.shape() != firstShape {
			rc.Count("probe_tree_depends_on_storage_order", 1)
		}
		rc.Note(fmt.Sprintf("e=%d tree=%s", e, tree.shape()))
		if tree == nil {
			if len(dist) > 0 {
				rc.Violate("incomplete", "empty-tree", "expand returned no tree although the subject set has relationships", w(nil), e, et)
				return
			}
			continue
		}
		if tree.Sub.Set == nil || *tree.Sub.Set != root {
			rc.Violate("unsound", "root", fmt.Sprintf("tree root is %s", tree.Sub), w(nil), e, et)
			return
		}
		if h := tree.height(); h > eff {
			rc.Violate("too-deep", "expand", fmt.Sprintf("tree has %d levels, effective max-depth is %d", h, eff), w(nil), e, et)
			return
		}
		// soundness, expand-once
		expanded := map[string]int{}
		present := map[string]bool{}
		var bad string
		var walk func(n *xnode)
		walk = func(n *xnode) {
			if len(n.Children) > 0 {
				expanded[n.Sub.String()]++
			}
			for _, c := range n.Children {
				present[c.Sub.String()] = true
				if n.Sub.Set == nil {
					bad = fmt.Sprintf("subject id %s has children", n.Sub)
					return
				}
				edge := Tuple{NS: n.Sub.Set.NS, Obj: n.Sub.Set.Obj, Rel: n.Sub.Set.Rel, Sub: c.Sub}
				if !inT[edge.String()] {
					bad = fmt.Sprintf("edge %s is not a stored relationship", edge)
					return
				}
				walk(c)
			}
		}
		walk(tree)
		if bad != "" {
			rc.Violate("unsound", "edge", bad, w(nil), e, et)
			return
		}
		for s, k := range expanded {
			if k > 1 {
				rc.Violate("expanded-twice", "expand", fmt.Sprintf("%s is expanded %d times in one tree", s, k), w(nil), e, et)
				return
			}
		}
		// completeness: everything within the effective depth appears. The closest
		// missing subject is reported; "visited-shadowing" is the signature of the
		// depth-first traversal with a global visited set: a predecessor of the
		// missing subject sits in the tree unexpanded at a level where it could
		// have been expanded, because another occurrence of it was reached first.
		{
			missing, mk := "", 1<<30
			for s, k := range dist {
				if k <= eff-1 && !present[s] && (k < mk || (k == mk && s < missing)) {
					missing, mk = s, k
				}
			}
			if missing != "" {
				occ := map[string][]int{} // subject set -> levels of its occurrences; negative level = unexpanded
				var lv func(n *xnode, l int)
				lv = func(n *xnode, l int) {
					if n.Sub.Set != nil {
						if len(n.Children) > 0 {
							occ[n.Sub.String()] = append(occ[n.Sub.String()], l)
						} else {
							occ[n.Sub.String()] = append(occ[n.Sub.String()], -l)
						}
					}
					for _, c := range n.Children {
						lv(c, l+1)
					}
				}
				lv(tree, 1)
				site := "missing-subject"
				// ancestors of the missing subject on shortest paths
				anc := map[string]bool{missing: true}
				for changed := true; changed; {
					changed = false
					for _, x := range tuples {
						z := Subject{Set: &SetRef{NS: x.NS, Obj: x.Obj, Rel: x.Rel}}.String()
						y := x.Sub.String()
						dz, okz := dist[z]
						if z == (Subject{Set: &root}).String() {
							dz, okz = 0, true
						}
						if anc[y] && !anc[z] && okz && dz == dist[y]-1 {
							anc[z] = true
							changed = true
						}
					}
				}
				for z := range anc {
					os := occ[z]
					shadowed := false
					for _, l := range os {
						if l < 0 && -l < eff {
							shadowed = true
						}
					}
					if shadowed && len(os) >= 2 {
						site = "visited-shadowing"
					}
				}
				// the same expansion with a depth that cannot bind on any path
				env.SetLimitsCached(Limits{Depth: 10*len(dist) + 20})
				big, _ := env.Reg.ExpandEngine().BuildTree(env.Ctx, rootSub, 0)
				env.SetLimitsCached(Limits{Depth: g})
				inBig := false
				var find func(n *xnode)
				find = func(n *xnode) {
					if n == nil {
						return
					}
					if n.Sub.String() == missing {
						inBig = true
					}
					for _, c := range n.Children {
						find(c)
					}
				}
				find(env.fromKetoTree(big))
				rc.Violate("incomplete", site, fmt.Sprintf("%s is %d hop(s) from the expanded set (effective depth %d allows %d) but is not in the tree", missing, mk, eff, eff-1),
					w(map[string]any{"present_with_unbounded_depth": inBig, "missing": missing}), e, et)
				return
			}
		}
		for s := range present {
			if _, ok := dist[s]; !ok {
				rc.Violate("unsound", "unreachable-subject", fmt.Sprintf("%s is in the tree but not reachable", s), w(nil), e, et)
				return
			}
		}
		// with depth not binding: subject-id leaves = subjects for which check says allowed
		if maxDist+1 <= eff && e == 0 {
			rc.Count("probe_depth_not_binding", 1)
			ids := map[string]bool{}
			var leaves func(n *xnode)
			leaves = func(n *xnode) {
				if n.Sub.Set == nil && !n.Sub.Nil {
					ids[n.Sub.ID] = true
				}
				for _, c := range n.Children {
					leaves(c)
				}
			}
			leaves(tree)
			env.SetLimitsCached(Limits{Depth: 10*len(dist) + 20})
			universe := map[string]bool{"u0": true, "nobody": true}
			for _, x := range tuples {
				if x.Sub.Set == nil {
					universe[x.Sub.ID] = true
				}
			}
			for u := range universe {
				cq := Tuple{NS: root.NS, Obj: root.Obj, Rel: root.Rel, Sub: Subject{ID: u}}
				refA := RefCheck(plainCfg, tuples, cq).Allowed
				ci, _ := env.Internal(cq)
				engA, _ := env.Reg.PermissionEngine().CheckIsMember(env.Ctx, ci[0], 0)
				if refA != ids[u] || engA != ids[u] {
					rc.Violate("expand-vs-check", "leaves", fmt.Sprintf("subject %s: in expand leaves=%v, check engine=%v, reference=%v", u, ids[u], engA, refA), w(nil), e, et)
					return
				}
			}
			env.SetLimitsCached(Limits{Depth: g})
			// REST and gRPC expand agree with the engine tree
			sys := env.SysTier()
			env.L1.pageSize.Store(0)
			var dp *int
			if d != 0 {
				dp = &d
			}
			rr, rt := sys.ExpandREST(root, dp)
			gres, gerr := sys.Expand.Expand(sys.ctx(), &rts.ExpandRequest{Subject: rts.NewSubjectSet(root.NS, root.Obj, root.Rel), MaxDepth: int32(d)})
			env.L1.pageSize.Store(int64(page))
			if ghost && (rt == nil || gerr != nil) {
				// the transports turn the tree back into names and may refuse a
				// relationship of a namespace they no longer know: an error, not a tree
				if rt == nil && !rr.OK() && gerr != nil {
					rc.Count("transport_errors_on_removed_namespace", 1)
					continue
				}
			}
			if s := fromExpandNode(rt).shape(); s != tree.shape() && page == 0 {
				rc.Violate("transport-disagrees", "rest", fmt.Sprintf("REST expand %s differs from the engine tree %s", s, tree.shape()), w(nil), e, et)
				return
			}
			if gerr != nil {
				rc.Violate("transport-disagrees", "grpc", "gRPC expand failed: "+gerr.Error(), w(nil), e, et)
				return
			}
			if s := fromProtoTree(gres.Tree).shape(); s != tree.shape() && page == 0 {
				rc.Violate("transport-disagrees", "grpc", fmt.Sprintf("gRPC expand %s differs from the engine tree %s", s, tree.shape()), w(nil), e, et)
				return
			}
		}
	}
	if rc.WantSample && !big {
		rc.Rec.Sample = desc(map[string]any{"tree_of_first_execution": firstShape})
	}
}

var c09Kinds = []FaultKind{FaultTransient, FaultPersistent, FaultConflict, FaultCtx}

// c09Faults repeats the expansion that has just produced the tree `want` in N
// storage calls on the same stored state, with the k-th storage call failing:
// a tree that is returned must still be the whole tree; an error is fine.
func c09Faults(env *Env, rc *RunCtx, e int, et *Tape, subj relationtuple.Subject, d int, want string, N int, w func(map[string]any) map[string]any) bool {
	ft := NewTape(Mix(rc.execSeed, 0xF09, uint64(e)))
	var ks []int
	if N <= 6 {
		for k := 1; k <= N; k++ {
			ks = append(ks, k)
		}
	} else {
		ks = samplePositions(ft, N, 6)
	}
	for _, k := range ks {
		kind := c09Kinds[ft.Choose(len(c09Kinds))]
		req := &Request{Kind: "expand", Subj: subj, Depth: d}
		plan := NoFaults()
		plan.MaxSteps = 5000
		plan.FaultAt = map[int]FaultKind{k: kind}
		r := env.Exec(ReplayThen(et.Recorded(), Mix(rc.execSeed, 0xF0A, uint64(e), uint64(k))), []*Request{req}, plan)
		rc.Rec.Execs++
		for fk, n := range r.FaultsFired {
			rc.Count("fault_"+fk, n)
		}
		out, _ := req.result.(ExpandOut)
		fw := func() map[string]any {
			return w(map[string]any{"fault": map[string]any{"position": k, "of": N, "kind": kind.String()}, "schedule": r.Trace, "tree_with_fault": env.fromKetoTree(out.Tree).shape()})
		}
		if !r.Returned {
			rc.Violate("no-termination", "fault", fmt.Sprintf("BuildTree did not return after storage call %d of %d failed (%s)", k, N, kind), fw(), e, et)
			return false
		}
		if out.Err != "" {
			rc.Count("fault_surfaced_as_error", 1)
			continue
		}
		if got := env.fromKetoTree(out.Tree).shape(); got != want {
			rc.Violate("incomplete", "fault", fmt.Sprintf("storage call %d of %d failed (%s); expand answered without an error with a tree that differs from the fault-free one", k, N, kind), fw(), e, et)
			return false
		}
		rc.Count("fault_absorbed_same_tree", 1)
	}
	// a request deadline on the simulated clock: every storage call takes 10 ms, the
	// deadline falls inside the j-th call (j in the second half of the expansion,
	// and once after its end). The answer is the whole tree or an error.
	if N >= 2 {
		const lat = 10 * time.Millisecond
		js := []int{N + 2}
		for i := 0; i < 2; i++ {
			js = append(js, N/2+1+ft.Choose(N-N/2))
		}
		for _, j := range js {
			req := &Request{Kind: "expand", Subj: subj, Depth: d}
			plan := NoFaults()
			plan.MaxSteps = 5000
			plan.Latency = lat
			plan.Deadline = time.Duration(j)*lat - lat/2 + 1300*time.Microsecond // (off the grid of the simulated event times: the deadline never ties with the end of a call)
			r := env.Exec(ReplayThen(et.Recorded(), Mix(rc.execSeed, 0xF0B, uint64(e), uint64(j))), []*Request{req}, plan)
			rc.Rec.Execs++
			rc.Count("fault_deadline", 1)
			rc.Rec.SimTimeNs += int64(r.FakeElapsed)
			out, _ := req.result.(ExpandOut)
			fw := func() map[string]any {
				return w(map[string]any{"deadline": map[string]any{"storage_call_latency_ms": 10, "deadline_ms": float64(plan.Deadline) / 1e6, "storage_calls_fault_free": N}, "schedule": r.Trace, "tree_under_deadline": env.fromKetoTree(out.Tree).shape()})
			}
			if !r.Returned {
				rc.Violate("no-termination", "deadline", fmt.Sprintf("BuildTree did not return although its context expired after %v", plan.Deadline), fw(), e, et)
				return false
			}
			if out.Err != "" {
				rc.Count("deadline_surfaced_as_error", 1)
				continue
			}
			if got := env.fromKetoTree(out.Tree).shape(); got != want {
				rc.Violate("incomplete", "deadline", fmt.Sprintf("the request's deadline (%v, storage calls take 10 ms, %d of them without a deadline) passed or came close; expand answered without an error with a tree that differs from the complete one", plan.Deadline, N), fw(), e, et)
				return false
			}
			rc.Count("deadline_met_same_tree", 1)
		}
	}
	return true
}
