package sim

// R1 – reference evaluator for check (Zanzibar semantics of a Config over a
// tuple multiset), independent of keto's code.
//
//	member(n:o#r, s) = (n:o#r@s) ∈ T
//	                 ∨ ∃ (n:o#r@(n':o'#r')) ∈ T : member(n':o'#r', s)
//	                 ∨ rewrite(n,r)(o, s)
//	includes/permits(C)(o,s) = member(n:o#C, s)
//	traverse(R,C)(o,s)       = ∃ (n:o#R@(n':o'#_)) ∈ T : member(n':o'#C, s)
//	!, &&, ||                = Boolean
//
// evaluated on the instance graph for the fixed subject s: SCCs are computed;
// a reachable SCC with an internal negative edge has no stratified meaning
// (NonStratified); otherwise SCCs are evaluated bottom-up, least fixed point
// inside an SCC.

type refNode struct{ NS, Obj, Rel string }

type fKind int

const (
	fConst fKind = iota
	fNode
	fOr
	fAnd
	fNot
)

type formula struct {
	kind fKind
	val  bool
	node int
	kids []*formula
}

type refEdge struct {
	to      int
	neg     bool
	rewrite bool
}

type RefResult struct {
	Allowed       bool
	NonStratified bool // a reachable cycle goes through a negation
	RewriteCycle  bool // a reachable cycle goes through a rewrite edge: depth limits can bind
	Reachable     int  // number of reachable instance-graph nodes
	Hops          int  // number of subject-set expansion edges in the reachable graph
	RewriteEdges  int
	DirectOnly    bool // decided by a direct tuple on the query node alone
	MaxFanout     int  // widest expansion / traverse fan-out in the reachable graph
}

type refEval struct {
	cfg    *Config
	tuples []Tuple
	subj   Subject
	index  map[refNode]int
	nodes  []refNode
	forms  []*formula
	edges  [][]refEdge
	byNode map[refNode][]Tuple
	fanout int
	hops   int
	rwEdge int
}

func RefCheck(cfg *Config, tuples []Tuple, q Tuple) RefResult {
	ev := &refEval{cfg: cfg, tuples: tuples, subj: q.Sub, index: map[refNode]int{}, byNode: map[refNode][]Tuple{}}
	for _, t := range tuples {
		k := refNode{t.NS, t.Obj, t.Rel}
		ev.byNode[k] = append(ev.byNode[k], t)
	}
	root := ev.visit(refNode{q.NS, q.Obj, q.Rel})
	res := RefResult{Reachable: len(ev.nodes), Hops: ev.hops, RewriteEdges: ev.rwEdge, MaxFanout: ev.fanout}

	// Tarjan SCC
	n := len(ev.nodes)
	idx := make([]int, n)
	low := make([]int, n)
	on := make([]bool, n)
	comp := make([]int, n)
	for i := range idx {
		idx[i] = -1
		comp[i] = -1
	}
	var stack []int
	var order [][]int
	counter := 0
	type frame struct{ v, ei int }
	for s := 0; s < n; s++ {
		if idx[s] != -1 {
			continue
		}
		fs := []frame{{s, 0}}
		idx[s], low[s] = counter, counter
		counter++
		stack = append(stack, s)
		on[s] = true
		for len(fs) > 0 {
			f := &fs[len(fs)-1]
			if f.ei < len(ev.edges[f.v]) {
				w := ev.edges[f.v][f.ei].to
				f.ei++
				if idx[w] == -1 {
					idx[w], low[w] = counter, counter
					counter++
					stack = append(stack, w)
					on[w] = true
					fs = append(fs, frame{w, 0})
				} else if on[w] && idx[w] < low[f.v] {
					low[f.v] = idx[w]
				}
				continue
			}
			v := f.v
			fs = fs[:len(fs)-1]
			if len(fs) > 0 {
				p := fs[len(fs)-1].v
				if low[v] < low[p] {
					low[p] = low[v]
				}
			}
			if low[v] == idx[v] {
				var c []int
				for {
					w := stack[len(stack)-1]
					stack = stack[:len(stack)-1]
					on[w] = false
					comp[w] = len(order)
					c = append(c, w)
					if w == v {
						break
					}
				}
				order = append(order, c)
			}
		}
	}
	for v := 0; v < n; v++ {
		for _, e := range ev.edges[v] {
			if comp[e.to] == comp[v] {
				if e.neg {
					res.NonStratified = true
				}
				if e.rewrite {
					res.RewriteCycle = true
				}
			}
		}
	}
	if res.NonStratified {
		return res
	}
	val := make([]bool, n)
	var eval func(f *formula) bool
	eval = func(f *formula) bool {
		switch f.kind {
		case fConst:
			return f.val
		case fNode:
			return val[f.node]
		case fOr:
			for _, k := range f.kids {
				if eval(k) {
					return true
				}
			}
			return false
		case fAnd:
			for _, k := range f.kids {
				if !eval(k) {
					return false
				}
			}
			return true
		case fNot:
			return !eval(f.kids[0])
		}
		return false
	}
	// Tarjan emits SCCs dependencies-first.
	for _, c := range order {
		for changed := true; changed; {
			changed = false
			for _, v := range c {
				if !val[v] && eval(ev.forms[v]) {
					val[v] = true
					changed = true
				}
			}
		}
	}
	res.Allowed = val[root]
	if res.Allowed {
		for _, t := range ev.byNode[ev.nodes[root]] {
			if t.Sub.Equal(q.Sub) {
				res.DirectOnly = true
			}
		}
	}
	return res
}

func (ev *refEval) visit(k refNode) int {
	if i, ok := ev.index[k]; ok {
		return i
	}
	i := len(ev.nodes)
	ev.index[k] = i
	ev.nodes = append(ev.nodes, k)
	ev.forms = append(ev.forms, nil)
	ev.edges = append(ev.edges, nil)

	f := &formula{kind: fOr}
	fan := 0
	// Strict mode: a relationship stored on a relation that is defined by a
	// permission expression does not count - the permission is what its
	// expression says (keto's documented strict-mode rule).
	stored := ev.byNode[k]
	if ev.cfg.Strict && ev.cfg.Enc != EncNone {
		if ns := ev.cfg.FindNS(k.NS); ns != nil {
			if rd := ns.FindRel(k.Rel); rd != nil && rd.Rewrite != nil {
				stored = nil
			}
		}
	}
	for _, t := range stored {
		if t.Sub.Equal(ev.subj) {
			f.kids = append(f.kids, &formula{kind: fConst, val: true})
		}
		if t.Sub.Set != nil {
			fan++
			ev.hops++
			j := ev.visit(refNode{t.Sub.Set.NS, t.Sub.Set.Obj, t.Sub.Set.Rel})
			f.kids = append(f.kids, &formula{kind: fNode, node: j})
			ev.edges[i] = append(ev.edges[i], refEdge{to: j})
		}
	}
	if fan > ev.fanout {
		ev.fanout = fan
	}
	if ev.cfg.Enc != EncNone {
		if rd := ev.cfg.FindNS(k.NS).FindRel(k.Rel); rd != nil && rd.Rewrite != nil {
			f.kids = append(f.kids, ev.rewrite(i, k, rd.Rewrite, false))
		}
	}
	ev.forms[i] = f
	return i
}

func (ev *refEval) rewrite(from int, k refNode, e *Expr, neg bool) *formula {
	switch e.Kind {
	case ExOr, ExAnd:
		f := &formula{kind: fOr}
		if e.Kind == ExAnd {
			f.kind = fAnd
		}
		for _, c := range e.Children {
			f.kids = append(f.kids, ev.rewrite(from, k, c, neg))
		}
		return f
	case ExNot:
		return &formula{kind: fNot, kids: []*formula{ev.rewrite(from, k, e.Children[0], !neg)}}
	case ExIncludes, ExPermits:
		ev.rwEdge++
		j := ev.visit(refNode{k.NS, k.Obj, e.Rel})
		ev.edges[from] = append(ev.edges[from], refEdge{to: j, neg: neg, rewrite: true})
		return &formula{kind: fNode, node: j}
	case ExTraverse:
		f := &formula{kind: fOr}
		fan := 0
		for _, t := range ev.byNode[refNode{k.NS, k.Obj, e.Rel}] {
			if t.Sub.Set == nil {
				continue
			}
			fan++
			ev.rwEdge++
			j := ev.visit(refNode{t.Sub.Set.NS, t.Sub.Set.Obj, e.Computed})
			ev.edges[from] = append(ev.edges[from], refEdge{to: j, neg: neg, rewrite: true})
			f.kids = append(f.kids, &formula{kind: fNode, node: j})
		}
		if fan > ev.fanout {
			ev.fanout = fan
		}
		return f
	}
	panic("bad expr")
}
