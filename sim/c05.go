package sim

import (
	"context"
	"crypto/sha256"
	"database/sql"
	"fmt"
	"io"
	"os"
	"strings"
	"sync/atomic"
	"time"

	"github.com/anishathalye/porcupine"
)

// C05 – multi-relationship writes are atomic and isolated.
//
//	mode faults    : fail-stop fault at EVERY SQL statement of the request x kinds; invalid
//	                 tuple at every position; L2 transaction monitor            (tier S)
//	mode crash[-wal]: file-backed database, crash at every statement (and right after the
//	                 acknowledged commit); the files a kill -9 would leave are reopened (tier S)
//	mode isolation[-wal]: one writer parked at every statement, readers run to completion
//	                 while it is parked; history checked with porcupine          (tier T)

func init() { Props["C05"] = runC05 }

// stateHash hashes both tables without commit_time (wall clock). The first
// result identifies the exact rows (with shard ids); the second is the content
// only (a retried transaction draws new shard ids for the same relationships).
func stateHash(q interface {
	QueryContext(ctx context.Context, query string, args ...any) (*sql.Rows, error)
}) (string, int, error) {
	full := sha256.New()
	content := sha256.New()
	n := 0
	for qi, qs := range []string{
		"SELECT shard_id, nid, namespace, object, relation, subject_id, subject_set_namespace, subject_set_object, subject_set_relation FROM keto_relation_tuples ORDER BY shard_id",
		"SELECT '', nid, namespace, object, relation, subject_id, subject_set_namespace, subject_set_object, subject_set_relation FROM keto_relation_tuples ORDER BY 2,3,4,5,6,7,8,9",
		"SELECT id, string_representation FROM keto_uuid_mappings ORDER BY id",
	} {
		rows, err := q.QueryContext(context.Background(), qs)
		if err != nil {
			return "", 0, err
		}
		cols, _ := rows.Columns()
		for rows.Next() {
			vals := make([]any, len(cols))
			ptrs := make([]any, len(cols))
			for i := range vals {
				ptrs[i] = &vals[i]
			}
			if err := rows.Scan(ptrs...); err != nil {
				rows.Close()
				return "", 0, err
			}
			switch qi {
			case 0:
				fmt.Fprintf(full, "%v|", vals)
				n++
			case 1:
				fmt.Fprintf(content, "%v|", vals)
			default:
				fmt.Fprintf(full, "%v|", vals)
				fmt.Fprintf(content, "%v|", vals)
				n++
			}
		}
		rows.Close()
	}
	return fmt.Sprintf("%x/%x", full.Sum(nil)[:10], content.Sum(nil)[:10]), n, nil
}

func contentOf(h string) string {
	for i := 0; i < len(h); i++ {
		if h[i] == '/' {
			return h[i+1:]
		}
	}
	return h
}

func (e *Env) StateHash() (string, int) {
	s, n, err := stateHash(e.keeper)
	if err != nil {
		e.T.Fatalf("state hash: %v", err)
	}
	return s, n
}

func (e *Env) kexec(q string) {
	if _, err := e.keeper.ExecContext(context.Background(), q); err != nil {
		e.T.Fatalf("keeper %q: %v", q, err)
	}
}

func (e *Env) Snapshot() {
	e.kexec("DROP TABLE IF EXISTS snap_t")
	e.kexec("DROP TABLE IF EXISTS snap_m")
	e.kexec("CREATE TABLE snap_t AS SELECT * FROM keto_relation_tuples")
	e.kexec("CREATE TABLE snap_m AS SELECT * FROM keto_uuid_mappings")
}

func (e *Env) Restore() {
	e.kexec("DELETE FROM keto_relation_tuples")
	e.kexec("DELETE FROM keto_uuid_mappings")
	e.kexec("INSERT INTO keto_relation_tuples SELECT * FROM snap_t")
	e.kexec("INSERT INTO keto_uuid_mappings SELECT * FROM snap_m")
}

// countStmts runs a transact of n inserts / n deletes fault-free and counts
// the INSERT / DELETE statements on keto_relation_tuples.
func (e *Env) countStmts(sys *Sys, n int, del bool) int {
	var ds []Delta
	for i := 0; i < n; i++ {
		ds = append(ds, Delta{Insert: !del, T: Tuple{NS: "N0", Obj: fmt.Sprintf("probe%d", i), Rel: "r0", Sub: Subject{ID: "u0"}}})
	}
	theHub.Arm(0, L2None)
	r := sys.Transact(ds)
	log, _ := theHub.Disarm()
	if !r.OK() {
		e.T.Fatalf("chunk discovery: transact of %d failed: %s", n, r)
	}
	c := 0
	for _, st := range log {
		if st.Kind == StmtWrite && st.Table == "keto_relation_tuples" {
			c++
		}
	}
	return c
}

// discoverChunks finds the sizes at which the number of INSERT / DELETE
// statements per request steps from 1 to 2 (doubling sweep + bisection), so the
// check follows keto's chunking instead of copying its constants.
func (e *Env) discoverChunks(sys *Sys) {
	if e.chunkI != 0 {
		return
	}
	find := func(del bool, max int) int {
		lo, hi := 1, 2
		for hi <= max && e.countStmts(sys, hi, del) == 1 {
			lo, hi = hi, hi*2
		}
		if hi > max {
			return -1
		}
		for lo+1 < hi {
			mid := (lo + hi) / 2
			if e.countStmts(sys, mid, del) == 1 {
				lo = mid
			} else {
				hi = mid
			}
		}
		return lo
	}
	e.chunkD = find(true, 4096)
	e.chunkI = find(false, 16384)
	e.Wipe()
}

type c05Req struct {
	Kind string // transact (gRPC), patch (REST)
	Ins  []Tuple
	Del  []Tuple
}

func (r c05Req) deltas() []Delta {
	var ds []Delta
	for _, x := range r.Ins {
		ds = append(ds, Delta{Insert: true, T: x})
	}
	for _, x := range r.Del {
		ds = append(ds, Delta{Insert: false, T: x})
	}
	return ds
}

func (s *Sys) doC05(r c05Req) Resp {
	switch r.Kind {
	case "patch":
		return s.Patch(r.deltas())
	case "mgr-write", "mgr-delete":
		// the Manager's own multi-tuple create / delete, called directly (no
		// handler transaction around it): strings are mapped first, then ONE call
		e := s.Env
		ts := r.Ins
		if r.Kind == "mgr-delete" {
			ts = r.Del
		}
		its, err := e.Internal(ts...)
		if err == nil {
			if r.Kind == "mgr-write" {
				err = e.Reg.RelationTupleManager().WriteRelationTuples(e.Ctx, its...)
			} else {
				err = e.Reg.RelationTupleManager().DeleteRelationTuples(e.Ctx, its...)
			}
		}
		resp := Resp{Transport: "rest", Status: 200}
		if err != nil {
			resp.Status, resp.Body = 500, []byte(err.Error())
		}
		return resp
	}
	return s.Transact(r.deltas())
}

func sizesAround(b int) []int {
	if b <= 0 {
		return []int{1, 2}
	}
	return []int{1, 2, b - 1, b, b + 1, 2*b + 1}
}

func genC05(t *Tape, env *Env, big bool) (pre []Tuple, rq c05Req) {
	is := []int{0, 1, 2, 3, 5}
	dsz := append([]int{0, 0, 1, 2}, sizesAround(env.chunkD)...)
	if big && env.chunkI > 0 {
		is = append(is, sizesAround(env.chunkI)[2:]...)
	}
	nI := is[t.Choose(len(is))]
	nD := dsz[t.Choose(len(dsz))]
	if nI+nD == 0 {
		nI = 2
	}
	rq.Kind = []string{"transact", "patch", "transact", "patch", "mgr-write", "mgr-delete"}[t.Choose(6)]
	if nI > 500 && rq.Kind == "patch" {
		rq.Kind = "transact"
	}
	if rq.Kind == "mgr-write" {
		nD = 0
		if nI == 0 {
			nI = 2
		}
	}
	if rq.Kind == "mgr-delete" {
		nI = 0
		if nD == 0 {
			nD = 2
		}
	}
	for i := 0; i < nI; i++ {
		x := Tuple{NS: pick(t, []string{"N0", "N1"}), Obj: fmt.Sprintf("i%d", i), Rel: "r0", Sub: Subject{ID: fmt.Sprintf("u%d", i%7)}}
		if i%5 == 4 {
			x.Sub = Subject{Set: &SetRef{NS: "N0", Obj: fmt.Sprintf("g%d", i%3), Rel: "r1"}}
		}
		rq.Ins = append(rq.Ins, x)
	}
	// the tuples to delete exist beforehand (plus a few that do not)
	for i := 0; i < nD; i++ {
		x := Tuple{NS: "N1", Obj: fmt.Sprintf("d%d", i), Rel: "r1", Sub: Subject{ID: "u0"}}
		rq.Del = append(rq.Del, x)
		if i%9 != 8 {
			pre = append(pre, x)
		}
	}
	// unrelated rows that must survive
	for i := 0; i < t.Range(0, 5); i++ {
		pre = append(pre, Tuple{NS: "N0", Obj: fmt.Sprintf("keep%d", i), Rel: "r0", Sub: Subject{ID: "u1"}})
	}
	return
}

func (e *Env) loadPre(sys *Sys, pre []Tuple) {
	for i := 0; i < len(pre); i += 2000 {
		j := i + 2000
		if j > len(pre) {
			j = len(pre)
		}
		var ds []Delta
		for _, x := range pre[i:j] {
			ds = append(ds, Delta{Insert: true, T: x})
		}
		if r := sys.Transact(ds); !r.OK() {
			e.T.Fatalf("harness: preload failed: %s", r)
		}
	}
}

func runC05(env *Env, rc *RunCtx) {
	sys := env.SysTier()
	env.Wipe()
	env.UseConfigCached(plainCfg, Limits{Depth: 100, Width: 1000})
	env.discoverChunks(sys)
	switch rc.Mode {
	case "crash", "crash-wal":
		runC05Crash(env, rc, sys)
	case "isolation", "isolation-wal":
		runC05Isolation(env, rc, sys)
	case "stmt-interleave":
		runC05StmtInterleave(env, rc, sys)
	default:
		runC05Faults(env, rc, sys)
	}
}

func stmtSummary(log []StmtRec) []string {
	var out []string
	for _, s := range log {
		out = append(out, s.String())
	}
	return out
}

func runC05Faults(env *Env, rc *RunCtx, sys *Sys) {
	t := rc.CaseTape
	big := t.Bool(1, 10)
	if rc.Tier == "thorough" {
		big = t.Bool(1, 4)
	}
	orderSeed, order := uint64(t.Choose(1<<30)), t.Choose(3)
	pre, rq := genC05(t, env, big)
	theGen.Reseed(orderSeed, order)
	env.loadPre(sys, pre)
	if rq.Kind == "mgr-write" || rq.Kind == "mgr-delete" {
		// the name mappings are not relationships: they exist before the request
		if _, err := env.Internal(append(append([]Tuple(nil), rq.Ins...), rq.Del...)...); err != nil {
			env.T.Fatalf("harness: pre-map: %v", err)
		}
		rc.Count("probe_direct_manager_call", 1)
	}
	env.Snapshot()
	s0, rows0 := env.StateHash()
	w := func(extra map[string]any) map[string]any {
		m := map[string]any{"request": rq.Kind, "inserts": len(rq.Ins), "deletes": len(rq.Del), "rows_before": rows0,
			"discovered_chunking": map[string]int{"insert_chunk": env.chunkI, "delete_chunk": env.chunkD}}
		for k, v := range extra {
			m[k] = v
		}
		return m
	}
	// fault-free run: N statements, state S1
	theGen.Reseed(orderSeed+1, order)
	theHub.Arm(0, L2None)
	r := sys.doC05(rq)
	log, _ := theHub.Disarm()
	rc.Rec.Execs++
	if !r.OK() {
		rc.Violate("valid-rejected", rq.Kind, fmt.Sprintf("fault-free request failed: %s", r), w(nil), -1, nil)
		return
	}
	s1, _ := env.StateHash()
	N := len(log)
	// L2 monitor: every write statement on keto_relation_tuples runs inside ONE
	// transaction (one BEGIN ... COMMIT on one connection); nothing is written
	// outside a transaction
	begins, commits := 0, 0
	nIns, nDel := 0, 0
	txOf := map[int]int{} // connection -> id of its open transaction
	txSeq := 0
	tupleTx := map[int]bool{}
	for _, st := range log {
		switch st.Kind {
		case StmtBegin:
			begins++
			txSeq++
			txOf[st.Conn] = txSeq
		case StmtCommit, StmtRollback:
			if st.Kind == StmtCommit {
				commits++
			}
			delete(txOf, st.Conn)
		case StmtWrite:
			tx, open := txOf[st.Conn]
			if !st.InTx || !open {
				rc.Violate("write-outside-transaction", rq.Kind, fmt.Sprintf("statement %q ran outside any transaction (conn %d)", st.Text, st.Conn), w(map[string]any{"statements": stmtSummary(log)}), -1, nil)
				return
			}
			if st.Table == "keto_relation_tuples" {
				tupleTx[tx] = true
				if len(st.Text) > 6 && st.Text[:6] == "INSERT" {
					nIns++
				} else {
					nDel++
				}
			}
		}
	}
	if len(tupleTx) > 1 || begins != commits {
		rc.Violate("not-one-transaction", rq.Kind, fmt.Sprintf("the request's relationship writes were spread over %d transactions (%d BEGIN, %d COMMIT)", len(tupleTx), begins, commits), w(map[string]any{"statements": stmtSummary(log)}), -1, nil)
		return
	}
	if nIns >= 2 {
		rc.Count("probe_multi_chunk_insert", 1)
	}
	if nDel >= 2 {
		rc.Count("probe_multi_chunk_delete", 1)
	}
	rc.Rec.NonTrivial = len(rq.Ins)+len(rq.Del) >= 2
	rc.Rec.CaseHash = fmt.Sprintf("%016x", fnv64(fmt.Sprintf("%s %d %d %d %s", rq.Kind, len(rq.Ins), len(rq.Del), len(pre), s0), 0))
	rc.Count("statements", N)
	// every statement k x every kind
	kinds := l2Kinds
	if len(rq.Ins) > 500 && rc.Tier == "quick" {
		kinds = []L2Fault{L2IO, L2Full}
	}
	for k := 1; k <= N; k++ {
		for _, kind := range kinds {
			env.Restore()
			theGen.Reseed(orderSeed+1, order)
			theHub.Arm(k, kind)
			r := sys.doC05(rq)
			flog, fired := theHub.Disarm()
			rc.Rec.Execs++
			rc.Count("fault_"+kind.String(), fired)
			sa, _ := env.StateHash()
			ex := map[string]any{"fault": map[string]any{"statement": k, "of": N, "kind": kind.String(), "at": log[k-1].String()}, "response": r.String(), "statements": stmtSummary(flog)}
			site := fmt.Sprintf("%s/%s", log[k-1].Kind, kind)
			switch {
			case r.OK() && contentOf(sa) == contentOf(s1):
				rc.Count("faults_masked", 1) // e.g. retried by database/sql or pop
			case r.OK():
				rc.Violate("acknowledged-but-not-applied", site, fmt.Sprintf("request acknowledged under a %s fault at statement %d/%d but the state is not the fully applied one", kind, k, N), w(ex), -1, nil)
				return
			case sa == s0:
				rc.Count("failed_atomically", 1)
			case contentOf(sa) == contentOf(s1):
				rc.Violate("error-but-applied", site, fmt.Sprintf("request returned %s but its effect is fully stored", r), w(ex), -1, nil)
				return
			default:
				rc.Violate("partial-apply", site, fmt.Sprintf("%s fault at statement %d/%d (%s): request failed (%s) and left a state that is neither before nor after", kind, k, N, log[k-1], r), w(ex), -1, nil)
				return
			}
		}
	}
	// invalid tuple at every position (sampled when the request is large)
	all := rq.deltas()
	if rq.Kind == "mgr-write" || rq.Kind == "mgr-delete" {
		all = nil // the invalid-input positions are exercised through the API kinds
	}
	var ps []int
	if len(all) <= 12 {
		for p := range all {
			ps = append(ps, p)
		}
	} else {
		ps = []int{0, 1, len(all) / 2, len(all) - 2, len(all) - 1}
		if env.chunkI > 0 && len(rq.Ins) > env.chunkI {
			ps = append(ps, env.chunkI-1, env.chunkI, env.chunkI+1)
		}
		if env.chunkD > 0 && len(rq.Del) > env.chunkD {
			ps = append(ps, len(rq.Ins)+env.chunkD, len(rq.Ins)+env.chunkD+1)
		}
	}
	for _, p := range ps {
		if p < 0 || p >= len(all) {
			continue
		}
		for vi, what := range []string{"nil-subject", "unknown-namespace", "unknown-subject-set-namespace"} {
			bad := append([]Delta(nil), all...)
			x := bad[p].T
			switch vi {
			case 0:
				x.Sub = Subject{Nil: true}
			case 1:
				x.NS = "nope"
			default:
				x.Sub = Subject{Set: &SetRef{NS: "nope", Obj: "o", Rel: "r"}}
			}
			bad[p].T = x
			env.Restore()
			var r Resp
			if rq.Kind == "patch" {
				r = sys.Patch(bad)
			} else {
				r = sys.Transact(bad)
			}
			rc.Rec.Execs++
			rc.Count("invalid_positions", 1)
			sa, _ := env.StateHash()
			ex := map[string]any{"invalid": map[string]any{"position": p, "of": len(all), "what": what}, "response": r.String()}
			if r.OK() {
				rc.Violate("invalid-accepted", what, fmt.Sprintf("request with %s at position %d/%d was accepted", what, p, len(all)), w(ex), -1, nil)
				return
			}
			if sa != s0 {
				rc.Violate("partial-apply", "invalid/"+what, fmt.Sprintf("request with %s at position %d/%d failed (%s) but changed the stored state", what, p, len(all), r), w(ex), -1, nil)
				return
			}
		}
	}
	// PATCH only: the action word of one delta in another spelling of the SAME
	// action ("INSERT", "Delete"). Whether the server takes it for the action or
	// refuses the request is its business; the request is applied as a whole or
	// not at all
	if rq.Kind == "patch" {
		for _, p := range ps {
			if p < 0 || p >= len(all) {
				continue
			}
			bad := append([]Delta(nil), all...)
			word := "delete"
			if bad[p].Insert {
				word = "insert"
			}
			switch (p + len(all)) % 3 {
			case 0:
				word = strings.ToUpper(word)
			case 1:
				word = strings.ToUpper(word[:1]) + word[1:]
			default:
				word = word[:len(word)-1] + strings.ToUpper(word[len(word)-1:])
			}
			bad[p].Act = word
			env.Restore()
			r := sys.Patch(bad)
			rc.Rec.Execs++
			rc.Count("probe_action_in_another_spelling", 1)
			sa, _ := env.StateHash()
			ex := map[string]any{"position": p, "of": len(all), "action_word": word, "response": r.String()}
			if r.OK() && contentOf(sa) != contentOf(s1) && sa != s0 {
				rc.Violate("partial-apply", "action-spelling", fmt.Sprintf("request with action %q at position %d/%d was acknowledged (%s) and left a state that is neither before nor after", word, p, len(all), r), w(ex), -1, nil)
				return
			}
			if !r.OK() && sa != s0 {
				rc.Violate("partial-apply", "action-spelling", fmt.Sprintf("request with action %q at position %d/%d failed (%s) but changed the stored state", word, p, len(all), r), w(ex), -1, nil)
				return
			}
		}
	}
	// the Manager called directly with a relationship that has no subject, at
	// every position (sampled around the chunk boundaries when the call is
	// large): the call fails and nothing is stored or deleted
	if rq.Kind == "mgr-write" || rq.Kind == "mgr-delete" {
		ts, chunk := rq.Ins, env.chunkI
		if rq.Kind == "mgr-delete" {
			ts, chunk = rq.Del, env.chunkD
		}
		var mps []int
		if len(ts) <= 12 {
			for p := range ts {
				mps = append(mps, p)
			}
		} else {
			mps = []int{0, len(ts) / 2, len(ts) - 1}
			if chunk > 0 && len(ts) > chunk {
				mps = append(mps, chunk-1, chunk, chunk+1, len(ts)-2)
			}
		}
		for _, p := range mps {
			if p < 0 || p >= len(ts) {
				continue
			}
			env.Restore()
			its, err := env.Internal(ts...)
			if err != nil {
				env.T.Fatalf("harness: map: %v", err)
			}
			cp := *its[p]
			cp.Subject = nil
			its[p] = &cp
			if rq.Kind == "mgr-write" {
				err = env.Reg.RelationTupleManager().WriteRelationTuples(env.Ctx, its...)
			} else {
				err = env.Reg.RelationTupleManager().DeleteRelationTuples(env.Ctx, its...)
			}
			rc.Rec.Execs++
			rc.Count("invalid_positions", 1)
			rc.Count("invalid_positions_manager", 1)
			sa, _ := env.StateHash()
			ex := map[string]any{"invalid": map[string]any{"position": p, "of": len(ts), "what": "nil-subject (Manager call)"}, "error": fmt.Sprint(err)}
			if err == nil {
				rc.Violate("invalid-accepted", "nil-subject/"+rq.Kind, fmt.Sprintf("Manager call with a subject-less relationship at position %d/%d returned no error", p, len(ts)), w(ex), -1, nil)
				return
			}
			if sa != s0 {
				rc.Violate("partial-apply", "invalid/nil-subject/"+rq.Kind, fmt.Sprintf("Manager call with a subject-less relationship at position %d/%d failed (%v) but changed the stored state", p, len(ts), err), w(ex), -1, nil)
				return
			}
		}
	}
	if rc.WantSample {
		rc.Rec.Sample = w(map[string]any{"statements_fault_free": stmtSummary(log), "fault_positions": N, "invalid_positions": ps})
	}
}

func copyFile(src, dst string) {
	in, err := os.Open(src)
	if err != nil {
		return
	}
	defer in.Close()
	out, err := os.Create(dst)
	if err != nil {
		return
	}
	defer out.Close()
	_, _ = io.Copy(out, in)
}

func runC05Crash(env *Env, rc *RunCtx, sys *Sys) {
	t := rc.CaseTape
	big := rc.Tier == "thorough" && t.Bool(1, 6)
	orderSeed, order := uint64(t.Choose(1<<30)), t.Choose(3)
	pre, rq := genC05(t, env, big)
	theGen.Reseed(orderSeed, order)
	env.loadPre(sys, pre)
	if rq.Kind == "mgr-write" || rq.Kind == "mgr-delete" {
		// the name mappings are not relationships: they exist before the request
		if _, err := env.Internal(append(append([]Tuple(nil), rq.Ins...), rq.Del...)...); err != nil {
			env.T.Fatalf("harness: pre-map: %v", err)
		}
		rc.Count("probe_direct_manager_call", 1)
	}
	env.Snapshot()
	s0, rows0 := env.StateHash()
	theGen.Reseed(orderSeed+1, order)
	theHub.Arm(0, L2None)
	r := sys.doC05(rq)
	log, _ := theHub.Disarm()
	if !r.OK() {
		rc.Violate("valid-rejected", rq.Kind, fmt.Sprintf("fault-free request failed: %s", r), nil, -1, nil)
		return
	}
	s1, _ := env.StateHash()
	N := len(log)
	rc.Rec.NonTrivial = len(rq.Ins)+len(rq.Del) >= 2
	rc.Rec.CaseHash = fmt.Sprintf("%016x", fnv64(fmt.Sprintf("crash %s %d %d %d %s", rq.Kind, len(rq.Ins), len(rq.Del), len(pre), s0), 0))
	w := func(extra map[string]any) map[string]any {
		m := map[string]any{"request": rq.Kind, "inserts": len(rq.Ins), "deletes": len(rq.Del), "rows_before": rows0, "journal": map[bool]string{true: "wal", false: "rollback"}[env.Opts.WAL], "statements": stmtSummary(log)}
		for k, v := range extra {
			m[k] = v
		}
		return m
	}
	snapDir := env.Opts.Dir + "/crash"
	for k := 1; k <= N+1; k++ {
		env.Restore()
		os.RemoveAll(snapDir)
		_ = os.MkdirAll(snapDir, 0o755)
		snap := func() {
			// the -shm file is only a cache of the WAL index (rebuilt from the WAL by the
			// first connection after a crash); a copy of it taken while connections are
			// live could be stale but self-consistent, so it is left out
			for _, suf := range []string{"", "-journal", "-wal"} {
				copyFile(env.dbPath+suf, snapDir+"/db.sqlite"+suf)
			}
		}
		theGen.Reseed(orderSeed+1, order)
		var resp Resp
		if k <= N {
			theHub.mu.Lock()
			theHub.onCrash = snap
			theHub.mu.Unlock()
			theHub.Arm(k, L2Crash)
			resp = sys.doC05(rq)
			theHub.Disarm()
			theHub.Heal()
			rc.Count("fault_crash", 1)
		} else {
			// crash right after the acknowledged commit
			resp = sys.doC05(rq)
			snap()
			rc.Count("fault_crash_after_ack", 1)
		}
		rc.Rec.Execs++
		// what a restarted server would find
		db, err := sql.Open("sqlite3", "file:"+snapDir+"/db.sqlite?_fk=true")
		if err != nil {
			env.T.Fatalf("reopen: %v", err)
		}
		sr, _, err := stateHash(db)
		db.Close()
		at := "after-ack"
		if k <= N {
			// no connection ids in the site: they differ between processes
			at = strings.TrimSpace(log[k-1].Kind.String() + " " + log[k-1].Table)
		}
		ex := map[string]any{"crash": map[string]any{"statement": k, "of": N, "at": at}, "response": resp.String(), "hash_before": s0, "hash_after": s1, "hash_reopened": sr}
		if err != nil {
			rc.Violate("unreadable-after-crash", at, fmt.Sprintf("database files left by a crash at statement %d/%d cannot be read: %v", k, N, err), w(ex), -1, nil)
			return
		}
		switch {
		case k == N+1:
			if !resp.OK() || contentOf(sr) != contentOf(s1) {
				rc.Violate("acknowledged-write-lost", "after-ack", "the request was acknowledged but the files on disk do not contain its complete effect", w(ex), -1, nil)
				return
			}
		case sr == s0:
			rc.Count("crash_left_before_state", 1)
		case contentOf(sr) == contentOf(s1):
			// only legal if the COMMIT had been executed; a crash AT statement k means
			// statement k did not run, so the commit cannot have happened
			rc.Violate("applied-before-commit", at, fmt.Sprintf("crash before statement %d/%d (%s) left the fully applied state although COMMIT had not run", k, N, at), w(ex), -1, nil)
			return
		default:
			rc.Violate("partial-apply-after-crash", at, fmt.Sprintf("crash at statement %d/%d (%s): the reopened database is neither before nor after", k, N, at), w(ex), -1, nil)
			return
		}
		if k <= N {
			if resp.OK() {
				rc.Violate("acknowledged-during-crash", at, "request acknowledged although every connection had died", w(ex), -1, nil)
				return
			}
			if live, _ := env.StateHash(); live != s0 {
				rc.Violate("partial-apply", at, "after the failed request the live database is not the state before", w(ex), -1, nil)
				return
			}
		}
	}
	if rc.WantSample {
		rc.Rec.Sample = w(map[string]any{"crash_points": N + 1})
	}
}

// ---------------------------------------------------------------------------
// tier T: isolation

type isoOp struct {
	write bool
	to    int    // write: target state (0/1)
	obs   string // read: observed view
	err   bool
}

func runC05Isolation(env *Env, rc *RunCtx, sys *Sys) {
	t := rc.CaseTape
	orderSeed, order := uint64(t.Choose(1<<30)), t.Choose(3)
	// two states A (Y present, X absent) and B (X present, Y absent); the writer toggles
	nX := []int{1, 2, 3, 7}[t.Choose(4)]
	nY := append([]int{1, 2, 3}, sizesAround(env.chunkD)[2:]...)[t.Choose(3+4)]
	if rc.Tier == "quick" && nY > env.chunkD+1 {
		nY = env.chunkD + 1
	}
	var X, Y []Tuple
	for i := 0; i < nX; i++ {
		X = append(X, Tuple{NS: "N0", Obj: "doc", Rel: "r0", Sub: Subject{ID: fmt.Sprintf("x%d", i)}})
	}
	for i := 0; i < nY; i++ {
		Y = append(Y, Tuple{NS: "N0", Obj: "doc", Rel: "r0", Sub: Subject{ID: fmt.Sprintf("y%d", i)}})
	}
	theGen.Reseed(orderSeed, order)
	env.loadPre(sys, Y)
	ns, obj, rel := "N0", "doc", "r0"
	q := Query{NS: &ns, Obj: &obj, Rel: &rel}
	view := func(ts []Tuple) string { return fmt.Sprint(bagKeys(ts)) }
	views := []string{view(Y), view(X)}
	chk := []Tuple{{NS: "N0", Obj: "doc", Rel: "r0", Sub: Subject{ID: "x0"}}, {NS: "N0", Obj: "doc", Rel: "r0", Sub: Subject{ID: "y0"}}}
	chkViews := []string{"false,true", "true,false"}

	var seq atomic.Int64
	var ops []porcupine.Operation
	var hist []string
	cur := 0
	rounds := t.Range(1, 3)
	type parkMsg struct{ rec StmtRec }
	for round := 0; round < rounds; round++ {
		target := 1 - cur
		var rq c05Req
		if target == 1 {
			rq = c05Req{Kind: "transact", Ins: X, Del: Y}
		} else {
			rq = c05Req{Kind: "transact", Ins: Y, Del: X}
		}
		parked := make(chan parkMsg)
		resume := make(chan struct{})
		done := make(chan Resp, 1)
		var writerConn atomic.Int64
		writerConn.Store(-1)
		theHub.mu.Lock()
		theHub.hook = func(_ context.Context, rec *StmtRec) error {
			// only the writer's transaction is parked: its BEGIN and everything on that connection
			if rec.Kind == StmtBegin && writerConn.Load() == -1 {
				writerConn.Store(int64(rec.Conn))
			}
			if int64(rec.Conn) != writerConn.Load() {
				return nil
			}
			parked <- parkMsg{*rec}
			<-resume
			return nil
		}
		theHub.mu.Unlock()
		call := seq.Add(1)
		theGen.Reseed(orderSeed+uint64(round)+1, order)
		go func() { done <- sys.doC05(rq) }()
		var wresp Resp
		stmts := 0
	loop:
		for {
			select {
			case pm := <-parked:
				stmts++
				// the writer is parked before statement pm.rec; readers run to completion
				nReads := t.Range(0, 2)
				for i := 0; i < nReads; i++ {
					kind := t.Choose(3)
					c := seq.Add(1)
					var obs string
					failed := false
					switch kind {
					case 0, 1:
						r, ts, _ := sys.ListAll(q, []int{0, 2}[kind], kind == 1)
						if !r.OK() {
							failed = true
						} else {
							obs = view(ts)
						}
					default:
						_, a0 := sys.CheckREST("get-openapi", chk[0], nil)
						_, a1 := sys.CheckREST("get-openapi", chk[1], nil)
						if a0 == nil || a1 == nil {
							failed = true
						} else {
							obs = fmt.Sprintf("%v,%v", *a0, *a1)
						}
					}
					ret := seq.Add(1)
					rc.Rec.Execs++
					if failed {
						rc.Count("reads_failed_busy", 1)
						hist = append(hist, fmt.Sprintf("read while writer parked before %s: error (legal)", pm.rec))
						continue
					}
					rc.Count("reads_during_transaction", 1)
					hist = append(hist, fmt.Sprintf("read(%d) while writer parked before %s: %s", kind, pm.rec, obs))
					ops = append(ops, porcupine.Operation{ClientId: 1, Input: isoOp{}, Call: c, Output: isoOp{obs: obs, to: kind}, Return: ret})
				}
				resume <- struct{}{}
			case wresp = <-done:
				break loop
			case <-time.After(60 * time.Second):
				env.T.Fatalf("harness: isolation writer stuck")
			}
		}
		theHub.mu.Lock()
		theHub.hook = nil
		theHub.mu.Unlock()
		ret := seq.Add(1)
		hist = append(hist, fmt.Sprintf("transact -> state %d: %s (%d statements)", target, wresp, stmts))
		if !wresp.OK() {
			rc.Violate("valid-rejected", "transact", fmt.Sprintf("toggling transaction failed: %s", wresp), map[string]any{"history": hist}, -1, nil)
			return
		}
		ops = append(ops, porcupine.Operation{ClientId: 0, Input: isoOp{write: true, to: target}, Call: call, Output: isoOp{}, Return: ret})
		cur = target
		// a read after the acknowledged write
		c := seq.Add(1)
		_, ts, _ := sys.ListAll(q, 0, false)
		ops = append(ops, porcupine.Operation{ClientId: 1, Input: isoOp{}, Call: c, Output: isoOp{obs: view(ts), to: 0}, Return: seq.Add(1)})
		hist = append(hist, "read after ack: "+view(ts))
	}
	model := porcupine.Model{
		Init: func() interface{} { return 0 },
		Step: func(state, input, output interface{}) (bool, interface{}) {
			st := state.(int)
			in := input.(isoOp)
			if in.write {
				return true, in.to
			}
			out := output.(isoOp)
			if out.to == 2 {
				return out.obs == chkViews[st], st
			}
			return out.obs == views[st], st
		},
		Equal: func(a, b interface{}) bool { return a.(int) == b.(int) },
	}
	res := porcupine.CheckOperationsTimeout(model, ops, 30*time.Second)
	rc.Rec.CaseHash = fmt.Sprintf("%016x", fnv64(fmt.Sprint(hist), 0))
	rc.Rec.NonTrivial = len(ops) > rounds*2
	rc.Note(fmt.Sprint(hist))
	switch res {
	case porcupine.Illegal:
		rc.Violate("not-linearizable", "isolation", "a concurrent reader observed a state that is neither before nor after the transaction (or went back in time)", map[string]any{"history": hist, "state_A": views[0], "state_B": views[1], "insert_size": nX, "delete_size": nY}, -1, nil)
		return
	case porcupine.Unknown:
		rc.Count("porcupine_inconclusive", 1)
	default:
		rc.Count("porcupine_ok", 1)
	}
	if rc.WantSample {
		rc.Rec.Sample = map[string]any{"history": hist, "insert_size": nX, "delete_size": nY, "journal": map[bool]string{true: "wal", false: "rollback"}[env.Opts.WAL]}
	}
}
