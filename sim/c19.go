package sim

import (
	"context"
	"encoding/json"
	"errors"
	"fmt"
	"net/http/httptest"
	"reflect"
	"sort"
	"strings"
	"testing"
	"testing/synctest"
	"unsafe"

	"github.com/ory/x/watcherx"

	"github.com/ory/keto/internal/driver/config"
	"github.com/ory/keto/internal/namespace"
	"github.com/ory/keto/internal/relationtuple"
)

// C19 – namespace configuration reloads are keep-last-good and never partial
// (tier W).
//
// Real: oplConfigWatcher / NamespaceWatcher (handleChange, handleRemove,
// parseFiles, readNamespaceFile), the real startEventHandler loop on its real
// unbuffered channel, the OPL parser, the JSON/YAML/TOML parsers, the
// /namespaces REST handler. Stub: fsnotify, the OS and watcherx's goroutines -
// replaced by a simulated directory whose notifications are turned, at the
// scheduler-chosen delivery instant, into the watcherx event the real
// streamFileEvents would produce for the file's content AT THAT INSTANT.

func init() { Props["C19"] = runC19 }

func mkChangeEvent(src string, data []byte) watcherx.Event {
	ev := &watcherx.ChangeEvent{}
	v := reflect.ValueOf(ev).Elem()
	f := v.FieldByName("data")
	reflect.NewAt(f.Type(), unsafe.Pointer(f.UnsafeAddr())).Elem().Set(reflect.ValueOf(data))
	setSource(ev, src)
	return ev
}

func mkRemoveEvent(src string) watcherx.Event {
	ev := &watcherx.RemoveEvent{}
	setSource(ev, src)
	return ev
}

func setSource(ev any, src string) {
	v := reflect.ValueOf(ev).Elem()
	f := v.FieldByName("source")
	reflect.NewAt(f.Type(), unsafe.Pointer(f.UnsafeAddr())).Elem().SetString(src)
}

type simVersion struct {
	Content string
	Valid   bool
	Names   []string // namespaces the version denotes (valid versions)
	Kind    string
	Serial  int
}

type simFile struct {
	Path    string
	Prefix  string
	Format  string // opl json yaml toml
	Exists  bool
	Content string
	Serial  int
	// history of what was DELIVERED to the handler
	Delivered        []simVersion
	RemovedDelivered bool
	LastKind         string
	// model of what has been LOADED (taken effect) so far
	Cur         *simVersion  // content last delivered for this file (nil: absent)
	Loaded      []simVersion // versions that have taken effect at some point
	EmptyLoaded bool         // "no namespaces for this file" has taken effect at some point (removal)
}

func (f *simFile) mkVersion(t *Tape, kind string) simVersion {
	f.Serial++
	name := fmt.Sprintf("%sV%d", f.Prefix, f.Serial)
	switch f.Format {
	case "opl":
		// every valid version also declares the STABLE namespace <prefix>S whose
		// permission p means "member" in even versions and "not member" in odd
		// ones: a check through the real engine tells which version the engine
		// is deciding by (a stale copy of an older version shows up as a wrong answer)
		stable := f.Prefix + "S"
		perm := "this.related.m.includes(ctx.subject)"
		if f.Serial%2 == 1 {
			perm = "!this.related.m.includes(ctx.subject)"
		}
		stableClass := fmt.Sprintf("class %s implements Namespace {\n  related: { m: %s[] }\n  permits = { p: (ctx: Context): boolean => %s }\n}\n", stable, stable, perm)
		switch kind {
		case "valid":
			if t.Bool(1, 3) {
				n2 := name + "b"
				// one such version in twenty is large: more than a mebibyte of comment
				// between its first and its second class (a watcher that reads files
				// through a size-limited reader would see a valid prefix)
				pad := ""
				if t.Bool(1, 20) {
					pad = "// " + strings.Repeat("padding ", (1<<20)/8+[]int{0, 1, 700}[t.Choose(3)]) + "\n"
				}
				return simVersion{Kind: kind, Valid: true, Names: []string{stable, name, n2}, Serial: f.Serial,
					Content: fmt.Sprintf("class %s implements Namespace {\n  related: {\n    r%d: %s[]\n  }\n}\n%sclass %s implements Namespace {\n  related: { m: %s[] }\n  permits = { p: (ctx: Context): boolean => this.related.m.includes(ctx.subject) }\n}\n", name, f.Serial, name, pad, n2, name) + stableClass}
			}
			return simVersion{Kind: kind, Valid: true, Names: []string{stable, name}, Serial: f.Serial,
				Content: fmt.Sprintf("class %s implements Namespace {\n  related: {\n    r%d: %s[]\n  }\n}\n", name, f.Serial, name) + stableClass}
		case "syntax":
			return simVersion{Kind: kind, Content: fmt.Sprintf("class %s implements Namespace {\n  related: {\n    r: \n", name)}
		case "type":
			return simVersion{Kind: kind, Content: fmt.Sprintf("class %s implements Namespace {\n  related: {\n    r: Undeclared%d[]\n  }\n}\n", name, f.Serial)}
		case "empty":
			// an empty OPL document is a valid program that declares nothing
			return simVersion{Kind: kind, Valid: true, Names: nil, Content: ""}
		}
	case "json":
		switch kind {
		case "valid":
			return simVersion{Kind: kind, Valid: true, Names: []string{name}, Content: fmt.Sprintf("{\"id\": %d, \"name\": %q}", f.Serial, name)}
		case "syntax":
			switch f.Serial % 3 {
			case 1:
				// a complete document followed by left-overs of a longer one that was
				// overwritten in place: not a JSON document
				return simVersion{Kind: kind, Content: fmt.Sprintf("{\"id\": %d, \"name\": %q}e\": \"old\"}", f.Serial, name)}
			case 2:
				// two documents in one file (an appended copy, a merge left-over)
				return simVersion{Kind: kind, Content: fmt.Sprintf("{\"id\": %d, \"name\": %q}\n{\"id\": %d, \"name\": %q}", f.Serial, name, f.Serial+1, name+"x")}
			}
			return simVersion{Kind: kind, Content: fmt.Sprintf("{\"id\": %d, \"name\": %q", f.Serial, name)}
		case "type":
			return simVersion{Kind: kind, Content: fmt.Sprintf("{\"id\": \"x\", \"name\": [%q]}", name)}
		case "empty":
			return simVersion{Kind: kind, Content: ""}
		}
	case "yaml":
		switch kind {
		case "valid":
			return simVersion{Kind: kind, Valid: true, Names: []string{name}, Content: fmt.Sprintf("id: %d\nname: %s\n", f.Serial, name)}
		case "syntax":
			return simVersion{Kind: kind, Content: fmt.Sprintf("id: %d\nname: [%s\n", f.Serial, name)}
		case "type":
			return simVersion{Kind: kind, Content: fmt.Sprintf("id: notanumber\nname:\n  - %s\n", name)}
		case "empty":
			return simVersion{Kind: "syntax", Content: "id: [\n"}
		}
	case "toml":
		switch kind {
		case "valid":
			return simVersion{Kind: kind, Valid: true, Names: []string{name}, Content: fmt.Sprintf("id = %d\nname = %q\n", f.Serial, name)}
		case "syntax":
			return simVersion{Kind: kind, Content: fmt.Sprintf("id = %d\nname = %q", f.Serial, name)[:14]}
		case "type":
			return simVersion{Kind: kind, Content: fmt.Sprintf("id = \"x\"\nname = [%q]\n", name)}
		case "empty":
			return simVersion{Kind: "syntax", Content: "id = = 1\n"}
		}
	}
	panic("bad version kind " + f.Format + "/" + kind)
}

// isValid is the generator's own criterion for an arbitrary delivered content:
// it is one of the full versions written (tagged), or a strict prefix of one
// (torn write), which by construction never parses for opl / json.
func (f *simFile) classify(content string, known map[string]simVersion) simVersion {
	if v, ok := known[content]; ok {
		return v
	}
	return simVersion{Kind: "torn", Content: content}
}

// hypothetical models what takes effect when file target receives version ver
// (nil: removal). Legacy watcher: files are independent - a valid version takes
// effect, an invalid one changes nothing, a removal empties the file. OPL
// watcher (documented mechanism: the new namespaces are set only if no file
// produced an error): the delivery takes effect for ALL files at once, and
// only if every file's current content is valid.
func hypothetical(files []*simFile, target *simFile, ver *simVersion, allOrNothing bool) (map[*simFile]simVersion, map[*simFile]bool) {
	loaded := map[*simFile]simVersion{}
	empty := map[*simFile]bool{}
	if !allOrNothing {
		if ver == nil {
			empty[target] = true
		} else if ver.Valid {
			loaded[target] = *ver
		}
		return loaded, empty
	}
	for _, g := range files {
		c := g.Cur
		if g == target {
			c = ver
		}
		if c != nil && !c.Valid {
			return map[*simFile]simVersion{}, map[*simFile]bool{}
		}
	}
	for _, g := range files {
		c := g.Cur
		if g == target {
			c = ver
		}
		if c == nil {
			empty[g] = true
		} else {
			loaded[g] = *c
		}
	}
	return loaded, empty
}

// tornCut chooses where a torn write / torn read cuts the content so that the
// prefix can never parse: JSON - any strict prefix; OPL - after the "class "
// keyword (the OPL parser ignores top-level tokens before the first class, so a
// shorter prefix is a valid empty document) and inside the first class.
func tornCut(t *Tape, format, content string) int {
	switch format {
	case "json":
		if len(content) < 3 {
			return 0
		}
		// (a content with something after its first complete object is cut inside that object)
		if i := strings.Index(content, "}"); i >= 2 && i < len(content)-1 {
			return 1 + t.Choose(i-1)
		}
		return 1 + t.Choose(len(content)-2)
	case "opl":
		if !strings.HasPrefix(content, "class ") {
			return 0
		}
		hi := strings.Index(content, "}\n}")
		if hi < 0 {
			hi = len(content) - 2
		}
		if hi <= 7 {
			return 0
		}
		return 7 + t.Choose(hi-7)
	}
	return 0
}

func visibleNames(ctx context.Context, m namespace.Manager) ([]string, error) {
	nn, err := m.Namespaces(ctx)
	if err != nil {
		return nil, err
	}
	var out []string
	for _, n := range nn {
		out = append(out, n.Name)
	}
	sort.Strings(out)
	return out, nil
}

func runC19(env *Env, rc *RunCtx) {
	if rc.Mode == "interleave" {
		runC19Interleave(env, rc)
		return
	}
	t := rc.CaseTape
	kind := rc.Mode // "opl-file", "opl-dir", "legacy-dir", "legacy-file"
	if kind == "" {
		kind = "opl-dir"
	}
	cfg := env.Reg.Config(env.Ctx)
	var m namespace.Manager
	nFiles := 1
	if strings.HasSuffix(kind, "-dir") {
		nFiles = t.Range(1, 3)
	}
	var files []*simFile
	for i := 0; i < nFiles; i++ {
		f := &simFile{Prefix: fmt.Sprintf("F%d", i)}
		if strings.HasPrefix(kind, "opl") {
			f.Format = "opl"
			f.Path = fmt.Sprintf("/sim/namespaces/f%d.ts", i)
		} else {
			f.Format = []string{"json", "yaml", "toml"}[t.Choose(3)]
			ext := map[string]string{"json": ".json", "yaml": []string{".yaml", ".yml"}[t.Choose(2)], "toml": ".toml"}[f.Format]
			f.Path = fmt.Sprintf("/sim/namespaces/f%d%s", i, ext)
		}
		files = append(files, f)
	}
	var engineTuples map[string]*relationtuple.RelationTuple
	if strings.HasPrefix(kind, "opl") {
		// one stored relationship per file in its stable namespace, written while a
		// plain configuration that knows these namespaces is installed
		env.Wipe()
		boot := &Config{Enc: EncNone}
		for _, f := range files {
			boot.NS = append(boot.NS, &NSDef{Name: f.Prefix + "S"})
		}
		env.UseConfigCached(boot, Limits{Depth: 5, Width: 100})
		engineTuples = map[string]*relationtuple.RelationTuple{}
		for _, f := range files {
			w := Tuple{NS: f.Prefix + "S", Obj: "o", Rel: "m", Sub: Subject{ID: "u"}}
			if err := env.Load([]Tuple{w}); err != nil {
				env.T.Fatalf("harness: %v", err)
			}
			its, err := env.Internal(Tuple{NS: f.Prefix + "S", Obj: "o", Rel: "p", Sub: Subject{ID: "u"}})
			if err != nil {
				env.T.Fatalf("harness: %v", err)
			}
			engineTuples[f.Prefix] = its[0]
		}
	}
	if strings.HasPrefix(kind, "opl") {
		m = config.VerifNewOPLWatcher(cfg, "file:///sim/namespaces")
	} else {
		m = config.VerifNewLegacyWatcher(cfg.VerifLogger(), "file:///sim/namespaces")
	}
	cfg.VerifSetNamespaceManager(m)
	env.cfgKey = ""
	known := map[string]simVersion{}
	var hist []string
	note := func(s string) {
		hist = append(hist, s)
		if len(hist) > 80 {
			hist = hist[len(hist)-80:]
		}
	}
	// initial contents
	for _, f := range files {
		if t.Bool(4, 5) {
			v := f.mkVersion(t, []string{"valid", "valid", "valid", "syntax"}[t.Choose(4)])
			known[v.Content] = v
			f.Exists, f.Content = true, v.Content
			f.LastKind = v.Kind
		}
	}
	type notification struct {
		file *simFile
		id   int
	}
	var pending []notification
	nid := 0
	notify := func(f *simFile) {
		nid++
		pending = append(pending, notification{f, nid})
	}
	readRouter := env.SysTier().ReadH
	var viol *Violation
	steps := t.Range(6, 40)
	if rc.Tier == "thorough" {
		steps = t.Range(6, 90)
	}
	faultCount := map[string]int{}
	tt := env.T.(*testing.T)
	func() {
		defer func() {
			if r := recover(); r != nil {
				if viol == nil {
					viol = rc.Violate("panic", kind, fmt.Sprint(r), map[string]any{"history": hist}, -1, nil)
				}
			}
		}()
		synctest.Test(tt, func(_ *testing.T) {
			ctx, cancel := context.WithCancel(context.Background())
			defer cancel()
			eventCh := make(watcherx.EventChannel)
			done := make(chan int)
			initDone := make(chan struct{})
			go config.VerifRunEventHandler(ctx, eventCh, m, done, initDone, cfg.VerifLogger())

			oplAllOrNothing := strings.HasPrefix(kind, "opl")
			// the oracle (R5)
			check := func(when string, includeInFlight *simVersion, inFlightFile *simFile) bool {
				names, err := visibleNames(ctx, m)
				if err != nil {
					viol = rc.Violate("namespaces-error", kind, err.Error(), map[string]any{"history": hist}, -1, nil)
					return false
				}
				rc.Rec.Execs++
				for _, f := range files {
					var vis []string
					for _, n := range names {
						if strings.HasPrefix(n, f.Prefix+"V") || n == f.Prefix+"S" {
							vis = append(vis, n)
						}
					}
					ok := false
					allowed := append([]simVersion(nil), f.Loaded...)
					emptyOK := len(f.Loaded) == 0 || f.EmptyLoaded
					if inFlightFile != nil {
						// the delivery in flight may or may not have taken effect yet
						hv, hEmpty := hypothetical(files, inFlightFile, includeInFlight, oplAllOrNothing)
						if v, ok := hv[f]; ok {
							allowed = append(allowed, v)
						}
						if hEmpty[f] {
							emptyOK = true
						}
					}
					for _, v := range allowed {
						if fmt.Sprint(v.Names) == fmt.Sprint(vis) || (len(v.Names) == 0 && len(vis) == 0) {
							ok = true
						}
					}
					if len(vis) == 0 && emptyOK {
						ok = true
					}
					if !ok {
						var del []string
						for _, v := range f.Delivered {
							del = append(del, fmt.Sprintf("%s%v", v.Kind, v.Names))
						}
						class := "partial-or-invalid-visible"
						if len(vis) == 0 {
							class = "lost-last-good"
						}
						var ld []string
						for _, v := range f.Loaded {
							ld = append(ld, fmt.Sprintf("%v", v.Names))
						}
						viol = rc.Violate(class, kind, fmt.Sprintf("%s: file %s shows namespaces %v; versions that have taken effect so far: %v (delivered: %v)", when, f.Path, vis, ld, del),
							map[string]any{"history": hist, "visible": names, "manager": kind, "files": len(files)}, -1, nil)
						return false
					}
					// the check engine decides by the version that is visible
					if engineTuples != nil && inFlightFile == nil && len(vis) > 0 {
						for _, v := range allowed {
							if fmt.Sprint(v.Names) != fmt.Sprint(vis) || v.Serial == 0 {
								continue
							}
							if it, okT := engineTuples[f.Prefix]; okT {
								res := env.Reg.PermissionEngine().CheckRelationTuple(ctx, it, 0)
								want := v.Serial%2 == 0
								got := res.Err == nil && res.Membership.String() == "IsMember"
								rc.Count("engine_checks", 1)
								if res.Err != nil || got != want {
									viol = rc.Violate("engine-decides-by-stale-version", kind, fmt.Sprintf("%s: version %d of %s is visible (p means %s), but the check engine answered allowed=%v err=%v", when, v.Serial, f.Path, map[bool]string{true: "member", false: "not member"}[want], got, res.Err),
										map[string]any{"history": hist, "visible": names, "manager": kind}, -1, nil)
									return false
								}
							}
							break
						}
					}
					// the lookups used by the engine agree with the listing (compared only when
					// no delivery is in flight: listing and lookup are two instants)
					for _, n := range vis {
						if inFlightFile != nil {
							break
						}
						if _, err := m.GetNamespaceByName(ctx, n); err != nil {
							viol = rc.Violate("inconsistent-lookup", kind, fmt.Sprintf("%s is listed but GetNamespaceByName fails: %v", n, err), map[string]any{"history": hist}, -1, nil)
							return false
						}
					}
				}
				// unknown names are never visible
				for _, n := range names {
					found := false
					for _, f := range files {
						if strings.HasPrefix(n, f.Prefix+"V") || n == f.Prefix+"S" {
							found = true
						}
					}
					if !found {
						viol = rc.Violate("partial-or-invalid-visible", kind, fmt.Sprintf("%s: namespace %q belongs to no version of any file", when, n), map[string]any{"history": hist, "visible": names}, -1, nil)
						return false
					}
				}
				// GET /namespaces serves the same set
				rec := httptest.NewRecorder()
				readRouter.ServeHTTP(rec, httptest.NewRequest("GET", "http://keto.sim/namespaces", nil))
				var body struct {
					Namespaces []struct {
						Name string `json:"name"`
					} `json:"namespaces"`
				}
				_ = json.Unmarshal(rec.Body.Bytes(), &body)
				var rn []string
				for _, n := range body.Namespaces {
					rn = append(rn, n.Name)
				}
				sort.Strings(rn)
				// (a reader that runs while a delivery is in flight reads the manager and
				// the REST endpoint at two different instants: the reload may fall between
				// them - which goroutine runs when one of them touches the log is the Go
				// scheduler's choice here, not the tape's - so the two are only compared
				// when nothing is in flight)
				if inFlightFile == nil && fmt.Sprint(rn) != fmt.Sprint(names) {
					viol = rc.Violate("rest-differs", kind, fmt.Sprintf("GET /namespaces %v differs from the manager %v", rn, names), map[string]any{"history": hist}, -1, nil)
					return false
				}
				return true
			}

			deliver := func(f *simFile, fault string, concurrentReader bool) bool {
				var ev watcherx.Event
				var ver *simVersion
				switch {
				case fault == "read-error":
					ev = watcherx.NewErrorEvent(errors.New("sim: read failed"), f.Path)
					note(fmt.Sprintf("deliver %s: read error", f.Path))
				case !f.Exists:
					ev = mkRemoveEvent(f.Path)
					note(fmt.Sprintf("deliver %s: removed", f.Path))
				default:
					content := f.Content
					if fault == "torn-read" {
						if cut := tornCut(t, f.Format, content); cut > 0 {
							content = content[:cut]
						}
					}
					v := f.classify(content, known)
					ver = &v
					ev = mkChangeEvent(f.Path, []byte(content))
					note(fmt.Sprintf("deliver %s: change (%s, %d bytes)", f.Path, v.Kind, len(content)))
				}
				var res chan bool
				if concurrentReader {
					res = make(chan bool, 1)
					inf := f
					if fault == "read-error" {
						inf = nil
					}
					go func() { res <- check("reader concurrent with delivery", ver, inf) }()
				}
				eventCh <- ev
				synctest.Wait()
				if ver != nil {
					f.Delivered = append(f.Delivered, *ver)
					rc.Count("delivered_"+ver.Kind, 1)
				} else if fault != "read-error" {
					rc.Count("delivered_remove", 1)
				}
				if fault != "read-error" {
					hv, hEmpty := hypothetical(files, f, ver, oplAllOrNothing)
					f.Cur = ver
					for g, v := range hv {
						g.Loaded = append(g.Loaded, v)
					}
					for g := range hEmpty {
						g.EmptyLoaded = true
					}
				}
				if concurrentReader {
					if !<-res {
						return false
					}
					rc.Count("concurrent_reads", 1)
				}
				return check("after delivery", nil, nil)
			}

			// initial load (DispatchNow): one event per existing file, then done
			n := 0
			for _, f := range files {
				if f.Exists {
					if !deliver(f, "", false) {
						return
					}
					n++
				} else if len(files) == 1 {
					if !deliver(f, "", false) {
						return
					}
					n++
				}
			}
			done <- n
			<-initDone
			if !check("after initial load", nil, nil) {
				return
			}
			kinds := []string{"valid", "valid", "valid", "syntax", "type", "empty"}
			for s := 0; s < steps; s++ {
				switch t.Weighted(4, 5, 2) {
				case 0: // an edit
					f := files[t.Choose(len(files))]
					switch a := t.Choose(8); {
					case a == 0 && f.Exists:
						f.Exists, f.Content = false, ""
						note("fs: remove " + f.Path)
						notify(f)
					default:
						v := f.mkVersion(t, kinds[t.Choose(len(kinds))])
						known[v.Content] = v
						f.LastKind = v.Kind
						chunked := (f.Format == "opl" || f.Format == "json") && len(v.Content) > 4 && t.Bool(1, 2)
						if chunked {
							// truncate, then write in chunks: every intermediate state is observable
							f.Exists, f.Content = true, ""
							note(fmt.Sprintf("fs: truncate+write %s (%s) in chunks", f.Path, v.Kind))
							cut := tornCut(t, f.Format, v.Content)
							if cut <= 0 {
								cut = len(v.Content)
							}
							f.Content = v.Content[:cut]
							notify(f)
							// the reader may see the partial state if a delivery happens now
							if t.Bool(1, 3) && len(pending) > 0 {
								if !deliver(f, "", false) {
									return
								}
								faultCount["partial-state-delivered"]++
							}
							f.Content = v.Content
							notify(f)
						} else {
							f.Exists, f.Content = true, v.Content
							note(fmt.Sprintf("fs: replace %s (%s)", f.Path, v.Kind))
							notify(f)
						}
					}
				case 1: // deliver a pending notification, possibly with a fault
					if len(pending) == 0 {
						continue
					}
					i := t.Choose(len(pending)) // any order: delay / reordering
					nt := pending[i]
					pending = append(pending[:i], pending[i+1:]...)
					fault := ""
					switch t.Weighted(10, 1, 1, 1, 1) {
					case 1:
						fault = "duplicate"
					case 2:
						fault = "torn-read"
					case 3:
						fault = "read-error"
					case 4:
						// drop - never the last notification of a file
						last := true
						for _, p := range pending {
							if p.file == nt.file {
								last = false
							}
						}
						if !last {
							faultCount["dropped"]++
							note("drop one notification of " + nt.file.Path)
							continue
						}
					}
					if fault != "" {
						faultCount[fault]++
					}
					if fault == "read-error" || fault == "torn-read" {
						// the file changed state is still owed to the handler
						notify(nt.file)
					}
					if !deliver(nt.file, fault, t.Bool(1, 3)) {
						return
					}
					if fault == "duplicate" {
						if !deliver(nt.file, "", false) {
							return
						}
					}
				default:
					if !check("sample", nil, nil) {
						return
					}
					rc.Count("samples", 1)
				}
			}
			// faults stop: everything pending is delivered; bounded liveness
			seen := map[*simFile]bool{}
			for i := len(pending) - 1; i >= 0; i-- {
				if seen[pending[i].file] {
					continue // coalesced
				}
				seen[pending[i].file] = true
				if !deliver(pending[i].file, "", false) {
					return
				}
			}
			names, _ := visibleNames(ctx, m)
			allValid := true
			for _, f := range files {
				if f.Exists && !known[f.Content].Valid {
					allValid = false
				}
			}
			for _, f := range files {
				if !f.Exists {
					continue
				}
				v := known[f.Content]
				if !v.Valid {
					continue
				}
				if oplAllOrNothing && !allValid {
					continue // another file is still invalid: the OPL watcher holds every update back
				}
				var vis []string
				for _, n := range names {
					if strings.HasPrefix(n, f.Prefix+"V") || n == f.Prefix+"S" {
						vis = append(vis, n)
					}
				}
				if fmt.Sprint(vis) != fmt.Sprint(v.Names) && !(len(vis) == 0 && len(v.Names) == 0) {
					viol = rc.Violate("not-converged", kind, fmt.Sprintf("after the last delivery file %s holds the valid version %v but %v is visible", f.Path, v.Names, vis),
						map[string]any{"history": hist, "visible": names, "manager": kind, "files": len(files)}, -1, nil)
					return
				}
				rc.Count("converged_files", 1)
			}
			cancel()
			synctest.Wait()
		})
	}()
	for k, v := range faultCount {
		rc.Count("fault_"+k, v)
	}
	rc.Rec.CaseHash = fmt.Sprintf("%016x", fnv64(fmt.Sprint(hist), 0))
	rc.Rec.NonTrivial = len(hist) > 8
	rc.Note(fmt.Sprint(hist))
	if nFiles > 1 {
		rc.Count("probe_multi_file", 1)
	}
	if rc.WantSample && viol == nil {
		rc.Rec.Sample = map[string]any{"manager": kind, "files": nFiles, "history": hist}
	}
}
