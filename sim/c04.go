package sim

import (
	"encoding/json"
	"fmt"
	"net/url"
	"sort"
	"strings"

	"github.com/ory/keto/ketoapi"
)

// C04 – the relationship store behaves as a per-network multiset under any API
// history (tier S). Mode "" is fault-free (strict oracle); mode "faults" injects
// fail-stop SQL-statement faults inside ops (an op may fail, and then the model
// does not move; it may never succeed with a different effect).

func init() { Props["C04"] = runC04 }

var plainCfg = &Config{Enc: EncNone, NS: []*NSDef{{Name: "N0"}, {Name: "N1"}}}

func (e *Env) SysTier() *Sys {
	if e.sys == nil {
		e.sys = NewSys(e)
	}
	return e.sys
}

// UsePlainConfig installs the rewrite-free two-namespace configuration once.
func (e *Env) UseConfigCached(cfg *Config, lim Limits) {
	b, _ := json.Marshal(cfg)
	if string(b) != e.cfgKey {
		if _, err := e.ApplyConfig(cfg); err != nil {
			e.T.Fatalf("config: %v", err)
		}
		e.cfgKey = string(b)
	}
	e.SetLimitsCached(lim)
}

type expandNode struct {
	Type     string                 `json:"type"`
	Children []*expandNode          `json:"children"`
	Tuple    *ketoapi.RelationTuple `json:"tuple"`
}

func (s *Sys) ExpandREST(set SetRef, depth *int) (Resp, *expandNode) {
	v := url.Values{"namespace": {set.NS}, "object": {set.Obj}, "relation": {set.Rel}}
	if depth != nil {
		v.Set("max-depth", fmt.Sprint(*depth))
	}
	r := s.REST(s.ReadH, "GET", "/relation-tuples/expand", v, nil)
	if !r.OK() {
		return r, nil
	}
	var n expandNode
	if err := json.Unmarshal(r.Body, &n); err != nil || n.Type == "" {
		return r, nil
	}
	return r, &n
}

func (n *expandNode) leavesIDs(out map[string]bool) {
	if n == nil {
		return
	}
	if len(n.Children) == 0 && n.Tuple != nil && n.Tuple.SubjectID != nil {
		out[*n.Tuple.SubjectID] = true
	}
	for _, c := range n.Children {
		c.leavesIDs(out)
	}
}

// R4: subjects reachable from a subject set along tuple edges.
func RefReach(tuples []Tuple, s SetRef, maxDist int) (ids map[string]bool, sets map[SetRef]bool) {
	ids, sets = map[string]bool{}, map[SetRef]bool{}
	type item struct {
		s SetRef
		d int
	}
	seen := map[SetRef]bool{s: true}
	q := []item{{s, 0}}
	for len(q) > 0 {
		it := q[0]
		q = q[1:]
		if maxDist >= 0 && it.d >= maxDist {
			continue
		}
		for _, t := range tuples {
			if t.NS != it.s.NS || t.Obj != it.s.Obj || t.Rel != it.s.Rel {
				continue
			}
			if t.Sub.Set == nil {
				ids[t.Sub.ID] = true
				continue
			}
			sets[*t.Sub.Set] = true
			if !seen[*t.Sub.Set] {
				seen[*t.Sub.Set] = true
				q = append(q, item{*t.Sub.Set, it.d + 1})
			}
		}
	}
	return
}

var l2Kinds = []L2Fault{L2IO, L2Busy, L2BadConn, L2Full, L2Ctx}

// mode bulk: few operations on LARGE sets, sizes around and beyond every
// power-of-ten-ish boundary an implementation might batch at (the real
// boundaries are not copied): bulk insert, listing with small and huge page
// sizes, delete-by-query of a large matching set, bulk delete.
func runC04Bulk(env *Env, rc *RunCtx) {
	t := rc.CaseTape
	sys := env.SysTier()
	env.Wipe()
	env.UseConfigCached(plainCfg, Limits{Depth: 100, Width: 1000})
	theGen.Reseed(uint64(t.Choose(1<<30)), t.Choose(3))
	sizes := []int{101, 250, 999, 1000, 1001, 1500, 2001, 2500}
	if rc.Tier == "thorough" {
		sizes = append(sizes, 3001, 5000, 5003, 7000, 10001)
	}
	n := sizes[t.Choose(len(sizes))]
	m := &Model{}
	var hist []string
	w := func() map[string]any { return map[string]any{"history": hist, "rows": n} }
	var ds []Delta
	for i := 0; i < n; i++ {
		x := Tuple{NS: "N0", Obj: fmt.Sprintf("b%d", i%7), Rel: []string{"r0", "r1"}[i%2], Sub: Subject{ID: fmt.Sprintf("u%d", i)}}
		if i%11 == 0 {
			x.NS = "N1"
		}
		ds = append(ds, Delta{Insert: true, T: x})
	}
	// first the same request with ONE entry that names an unknown namespace - at
	// the end, in the middle, or just past the first thousand: it is rejected and
	// nothing of it is stored, however the server slices large requests
	if t.Bool(1, 2) {
		k := n
		if k > 4000 {
			k = 4000
		}
		bad := append([]Delta(nil), ds[:k]...)
		pos := []int{k - 1, k / 2, 1000}[t.Choose(3)]
		if pos >= k {
			pos = k - 1
		}
		bad[pos].T.NS = "nope"
		var r Resp
		via := "transact"
		if t.Bool(1, 2) {
			via = "patch"
			r = sys.Patch(bad)
		} else {
			r = sys.Transact(bad)
		}
		rc.Rec.Execs++
		hist = append(hist, fmt.Sprintf("%s of %d relationships, entry %d names an unknown namespace -> %s", via, k, pos, r))
		if r.OK() {
			rc.Violate("invalid-accepted", via, hist[len(hist)-1], w(), -1, nil)
			return
		}
		_, all, _ := sys.ListAll(Query{}, 0, true)
		if len(all) != 0 {
			rc.Violate("failed-op-changed-state", via, fmt.Sprintf("%s: %d relationships are stored afterwards", hist[len(hist)-1], len(all)), w(), -1, nil)
			return
		}
		rc.Count("probe_bulk_write_with_one_invalid_entry", 1)
	}
	for i := 0; i < len(ds); i += 4000 {
		j := i + 4000
		if j > len(ds) {
			j = len(ds)
		}
		if r := sys.Transact(ds[i:j]); !r.OK() {
			rc.Violate("valid-rejected", "transact", fmt.Sprintf("bulk insert of %d failed: %s", j-i, r), w(), -1, nil)
			return
		}
		for _, d := range ds[i:j] {
			m.Insert(d.T)
		}
	}
	hist = append(hist, fmt.Sprintf("insert %d relationships", n))
	compare := func(step string) bool {
		size := []int{0, 1000, 5000, n - 1, n, n + 1, 100000}[t.Choose(7)]
		if size < 0 {
			size = 0
		}
		rr, all, pages := sys.ListAll(Query{}, size, t.Bool(1, 2))
		rc.Rec.Execs++
		hist = append(hist, fmt.Sprintf("list all with page size %d -> %d items in %d pages", size, len(all), pages))
		if !rr.OK() && len(all) == 0 && len(m.T) > 0 {
			rc.Violate("valid-rejected", "list", fmt.Sprintf("%s: listing with page size %d failed: %s", step, size, rr), w(), -1, nil)
			return false
		}
		if d := bagDiff(all, m.T); d != "" {
			rc.Violate("state-diverged", "bulk", fmt.Sprintf("%s: listing (page size %d) has %d items, the model %d: %s", step, size, len(all), len(m.T), d), w(), -1, nil)
			return false
		}
		return true
	}
	if !compare("after bulk insert") {
		return
	}
	steps := t.Range(1, 3)
	for s := 0; s < steps; s++ {
		switch t.Choose(3) {
		case 0: // delete-by-query of a large matching set
			ns := []string{"N0", "N1"}[t.Choose(2)]
			q := Query{NS: &ns}
			if t.Bool(1, 2) {
				rel := []string{"r0", "r1"}[t.Choose(2)]
				q.Rel = &rel
			}
			before := len(m.Match(q))
			var r Resp
			if t.Bool(1, 2) {
				r = sys.DeleteREST(q)
			} else {
				r = sys.DeleteGRPC(q)
			}
			hist = append(hist, fmt.Sprintf("delete by query %s (%d matching) -> %s", q, before, r))
			if !r.OK() {
				rc.Violate("valid-rejected", "delete", hist[len(hist)-1], w(), -1, nil)
				return
			}
			m.DeleteQuery(q)
			rc.Count("bulk_delete_by_query", 1)
		case 1: // bulk delete of explicit tuples
			k := []int{101, 250, 1001}[t.Choose(3)]
			if k > len(m.T) {
				k = len(m.T)
			}
			if k == 0 {
				continue
			}
			var dd []Delta
			for i := 0; i < k; i++ {
				dd = append(dd, Delta{Insert: false, T: m.T[(i*7)%len(m.T)]})
			}
			r := sys.Transact(dd)
			hist = append(hist, fmt.Sprintf("delete %d explicit relationships -> %s", k, r))
			if !r.OK() {
				rc.Violate("valid-rejected", "transact", hist[len(hist)-1], w(), -1, nil)
				return
			}
			for _, d := range dd {
				m.Delete(d.T)
			}
			rc.Count("bulk_delete_explicit", 1)
		default: // a query over one object with many rows
			ns, obj := "N0", fmt.Sprintf("b%d", t.Choose(7))
			q := Query{NS: &ns, Obj: &obj}
			_, ts, _ := sys.ListAll(q, []int{0, 7, 1000}[t.Choose(3)], t.Bool(1, 2))
			hist = append(hist, fmt.Sprintf("list %s -> %d items", q, len(ts)))
			if d := bagDiff(ts, m.Match(q)); d != "" {
				rc.Violate("list-mismatch", "bulk", fmt.Sprintf("list %s differs from the model: %s", q, d), w(), -1, nil)
				return
			}
		}
		if !compare("after step") {
			return
		}
	}
	rc.Rec.CaseHash = fmt.Sprintf("%016x", fnv64(fmt.Sprint(hist), 0))
	rc.Rec.NonTrivial = true
	rc.Count("bulk_rows", n)
	if n > 1000 {
		rc.Count("probe_over_1000_rows", 1)
	}
	if rc.WantSample {
		rc.Rec.Sample = w()
	}
}

func runC04(env *Env, rc *RunCtx) {
	if rc.Mode == "bulk" {
		runC04Bulk(env, rc)
		return
	}
	t := rc.CaseTape
	sys := env.SysTier()
	env.Wipe()
	env.UseConfigCached(plainCfg, Limits{Depth: 100, Width: 1000})
	theGen.Reseed(uint64(t.Choose(1<<30)), t.Choose(3))
	dom := DefaultDomain
	faults := rc.Mode == "faults"
	nOps := t.Range(4, 30)
	if rc.Tier == "thorough" {
		nOps = t.Range(4, 60)
	}
	m := &Model{}
	var hist []string
	h := fnv64("c04", 0)
	witness := func(extra map[string]any) map[string]any {
		w := map[string]any{"history": hist, "namespaces": dom.NS}
		var ms []string
		for _, x := range m.T {
			ms = append(ms, x.String())
		}
		w["model_state"] = ms
		for k, v := range extra {
			w[k] = v
		}
		return w
	}
	nWrites, nInvalid := 0, 0
	for i := 0; i < nOps; i++ {
		op := dom.GenOp(t, m.T, false)
		// one REST patch in four: one of its entries names BOTH kinds of subject
		// (JSON can; the subject id is what the model goes by). The server may refuse
		// the request or go by either subject - every other entry of the request is
		// stored with exactly its own strings all the same
		var alt *Model
		if op.Kind == "patch" && !faults && t.Bool(1, 4) {
			var cand []int
			for j, d := range op.Deltas {
				if d.T.Sub.Set == nil && !d.T.Sub.Nil {
					cand = append(cand, j)
				}
			}
			if len(cand) > 0 {
				j := cand[t.Choose(len(cand))]
				ds := append([]Delta(nil), op.Deltas...)
				ds[j].AlsoSet = &SetRef{NS: pick(t, dom.NS), Obj: pick(t, dom.Objs), Rel: pick(t, dom.Rels)}
				op.Deltas = ds
				rc.Count("probe_entry_with_both_subject_kinds", 1)
			}
		}
		valid, after, want := dom.Expect(op, m)
		if valid {
			for j, d := range op.Deltas {
				if d.AlsoSet != nil {
					o2 := op
					o2.Deltas = append([]Delta(nil), op.Deltas...)
					o2.Deltas[j].T.Sub = Subject{Set: d.AlsoSet}
					_, alt, _ = dom.Expect(o2, m)
				}
			}
		}
		k, kind := 0, L2None
		if faults && t.Bool(1, 3) {
			k, kind = t.Range(1, 6), l2Kinds[t.Choose(len(l2Kinds))]
		}
		theHub.Arm(k, kind)
		resp, got := sys.Do(op)
		log, fired := theHub.Disarm()
		entry := fmt.Sprintf("%s -> %s", op, resp)
		if fired > 0 {
			entry += fmt.Sprintf(" [%s fault at statement %d]", kind, k)
			rc.Count("fault_"+kind.String(), 1)
		}
		hist = append(hist, entry)
		h = fnv64(entry, h)
		rc.Rec.Execs++
		_ = log
		site := op.Kind
		if resp.Panic != "" {
			rc.Violate("panic", site, "handler panicked: "+resp.Panic, witness(nil), -1, nil)
			return
		}
		switch {
		case fired == 0 && valid && !resp.OK() && alt != nil:
			// refused as ambiguous: legal, and without effect (checked below)
		case fired == 0 && valid && !resp.OK():
			rc.Violate("valid-rejected", site, fmt.Sprintf("valid operation was rejected: %s", entry), witness(nil), -1, nil)
			return
		case !valid && resp.OK():
			rc.Violate("invalid-accepted", site, fmt.Sprintf("operation with an unknown namespace / without subject was accepted: %s", entry), witness(nil), -1, nil)
			return
		}
		if !valid {
			nInvalid++
		}
		if resp.OK() {
			if op.IsWrite() {
				m = after
				nWrites++
			} else if d := bagDiff(got, want); d != "" {
				rc.Violate("list-mismatch", site, fmt.Sprintf("%s returned a different multiset than the model: %s", op, d), witness(nil), -1, nil)
				return
			} else if len(want) > op.Size && op.Size > 0 {
				rc.Count("probe_multi_page_list", 1)
			}
		} else if fired > 0 {
			rc.Count("ops_failed_under_fault", 1)
		}
		if fired > 0 && resp.OK() {
			rc.Count("faults_masked", 1)
		}
		// cross-invariants after every op (fault-free observation)
		_, all, _ := sys.ListAll(Query{}, []int{0, 3, 100}[t.Choose(3)], true)
		if alt != nil && resp.OK() && bagDiff(all, m.T) != "" && bagDiff(all, alt.T) == "" {
			m = alt // the server went by the subject set of the ambiguous entry
		}
		if d := bagDiff(all, m.T); d != "" {
			cls := "state-diverged"
			if !resp.OK() {
				cls = "failed-op-changed-state"
			}
			rc.Violate(cls, site, fmt.Sprintf("after %s the stored relationships differ from the model: %s", entry, d), witness(nil), -1, nil)
			return
		}
		for j := 0; j < 2; j++ {
			q := dom.Query(t, m.T)
			if !dom.ValidQuery(q) {
				continue
			}
			rr, ts, _ := sys.ListAll(q, 0, j == 0)
			if !rr.OK() {
				rc.Violate("valid-rejected", "list", fmt.Sprintf("list %s -> %s", q, rr), witness(nil), -1, nil)
				return
			}
			if d := bagDiff(ts, m.Match(q)); d != "" {
				rc.Violate("list-mismatch", "list", fmt.Sprintf("list %s differs from the model: %s", q, d), witness(nil), -1, nil)
				return
			}
		}
		// check and expand see the writes immediately
		if len(m.T) > 0 {
			base := m.T[t.Choose(len(m.T))]
			cq := Tuple{NS: base.NS, Obj: base.Obj, Rel: base.Rel, Sub: Subject{ID: pick(t, dom.Users)}}
			if t.Bool(1, 3) && base.Sub.Set == nil {
				cq.Sub = base.Sub
			}
			ref := RefCheck(plainCfg, m.T, cq)
			rr, allowed := sys.CheckREST("get-openapi", cq, nil)
			if allowed == nil {
				rc.Violate("valid-rejected", "check", fmt.Sprintf("check %s -> %s", cq, rr), witness(nil), -1, nil)
				return
			}
			if *allowed != ref.Allowed {
				rc.Violate("check-after-write", "check", fmt.Sprintf("check %s = %v, model says %v", cq, *allowed, ref.Allowed), witness(nil), -1, nil)
				return
			}
			if ref.Allowed {
				rc.Count("probe_check_allowed", 1)
			}
			set := SetRef{NS: base.NS, Obj: base.Obj, Rel: base.Rel}
			_, tree := sys.ExpandREST(set, nil)
			gotIDs := map[string]bool{}
			tree.leavesIDs(gotIDs)
			wantIDs, _ := RefReach(m.T, set, -1)
			if !sameSet(gotIDs, wantIDs) {
				rc.Violate("expand-after-write", "expand", fmt.Sprintf("expand %v subject-id leaves %v, model reach %v", set, keys(gotIDs), keys(wantIDs)), witness(nil), -1, nil)
				return
			}
		}
	}
	rc.Rec.CaseHash = fmt.Sprintf("%016x", h)
	rc.Rec.NonTrivial = nWrites >= 3
	rc.Count("ops", nOps)
	rc.Count("writes_applied", nWrites)
	rc.Count("invalid_ops", nInvalid)
	rc.Note(fmt.Sprintf("hist %016x", h))
	if rc.WantSample {
		rc.Rec.Sample = witness(nil)
	}
}

func sameSet(a, b map[string]bool) bool {
	if len(a) != len(b) {
		return false
	}
	for k := range a {
		if !b[k] {
			return false
		}
	}
	return true
}

func keys(m map[string]bool) string {
	var ks []string
	for k := range m {
		ks = append(ks, k)
	}
	sort.Strings(ks)
	return "[" + strings.Join(ks, " ") + "]"
}

func sortStrings(s []string) { sort.Strings(s) }
