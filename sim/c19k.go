package sim

import (
	"context"
	"encoding/json"
	"fmt"
	"net/http/httptest"
	"sort"
	"strings"
	"sync/atomic"
	"testing"
	"testing/synctest"
	"time"

	"github.com/anishathalye/porcupine"
	"github.com/ory/x/watcherx"

	"github.com/ory/keto/internal/driver/config"
	"github.com/ory/keto/internal/namespace"
	"github.com/ory/keto/verifsim/simlock"
)

// C19, mode "interleave" (tier K): the real namespace watcher handles a
// sequence of reloads while reader goroutines list and look up namespaces
// through the manager and through GET /namespaces. Every mutex operation of
// keto is a scheduling point (simlock seam, LockSched): the tape decides which
// goroutine proceeds at each Lock / RLock / Unlock, so a reload can be
// interleaved with a read between any two lock operations. The recorded
// history (reload k handed to the handler ... handler ready for the next one;
// read invoked ... returned, stamped with the scheduler's logical clock) must be
// linearizable against the single-copy model "the visible namespaces are those
// of the last reload that has taken effect" (porcupine), and after the last
// reload every accessor shows the last version.

type c19Obs struct {
	Acc    string // list | rest | get:<name>
	Names  string
	Found  bool
	Reader int
}

type c19In struct {
	Write int // >0: reload k
	Acc   string
}

func runC19Interleave(env *Env, rc *RunCtx) {
	t := rc.CaseTape
	if simlock.Sites.Load() == 0 {
		// the lock seam is not compiled in (the overlay did not build): nothing to schedule
		rc.Rec.Skipped = "no-lock-seam"
		return
	}
	kind := []string{"opl-dir", "opl-file", "legacy-dir", "legacy-file"}[t.Choose(4)]
	cfg := env.Reg.Config(env.Ctx)
	nFiles := 1
	if strings.HasSuffix(kind, "-dir") {
		nFiles = t.Range(1, 3)
	}
	var files []*simFile
	for i := 0; i < nFiles; i++ {
		f := &simFile{Prefix: fmt.Sprintf("F%d", i)}
		if strings.HasPrefix(kind, "opl") {
			f.Format, f.Path = "opl", fmt.Sprintf("/sim/namespaces/f%d.ts", i)
		} else {
			f.Format = []string{"json", "yaml", "toml"}[t.Choose(3)]
			f.Path = fmt.Sprintf("/sim/namespaces/f%d.%s", i, f.Format)
		}
		files = append(files, f)
	}
	var m namespace.Manager
	if strings.HasPrefix(kind, "opl") {
		m = config.VerifNewOPLWatcher(cfg, "file:///sim/namespaces")
	} else {
		m = config.VerifNewLegacyWatcher(cfg.VerifLogger(), "file:///sim/namespaces")
	}
	cfg.VerifSetNamespaceManager(m)
	env.cfgKey = ""
	readRouter := env.SysTier().ReadH

	// the reload sequence and the model states
	cur := map[*simFile][]string{}
	union := func() string {
		var all []string
		for _, f := range files {
			all = append(all, cur[f]...)
		}
		sort.Strings(all)
		return fmt.Sprint(all)
	}
	type reload struct {
		f *simFile
		v simVersion
	}
	var initial []reload
	for _, f := range files {
		v := f.mkVersion(t, "valid")
		initial = append(initial, reload{f, v})
		cur[f] = v.Names
	}
	K := t.Range(1, 5)
	var seq []reload
	namesAt := []string{union()}
	allNames := map[string]bool{}
	for _, f := range files {
		for _, n := range cur[f] {
			allNames[n] = true
		}
	}
	for k := 1; k <= K; k++ {
		f := files[t.Choose(len(files))]
		var v simVersion
		if k > 1 && seq[len(seq)-1].f == f && t.Bool(1, 6) {
			v = seq[len(seq)-1].v // the same content again (duplicate notification)
		} else {
			v = f.mkVersion(t, "valid")
		}
		seq = append(seq, reload{f, v})
		cur[f] = v.Names
		for _, n := range v.Names {
			allNames[n] = true
		}
		namesAt = append(namesAt, union())
	}
	var nameList []string
	for n := range allNames {
		nameList = append(nameList, n)
	}
	sort.Strings(nameList)
	// names that no version declares: another spelling of a declared one, and a stranger
	for _, n := range append([]string{}, nameList...) {
		if l := strings.ToLower(n); l != n && !allNames[l] {
			nameList = append(nameList, l)
		}
	}
	nameList = append(nameList, "NoSuchNamespace")
	has := func(state int, name string) bool {
		return strings.Contains(" "+strings.Trim(namesAt[state], "[]")+" ", " "+name+" ")
	}
	R := t.Range(1, 3)
	M := t.Range(2, 5)
	type readPlan struct{ acc string }
	plans := make([][]readPlan, R)
	for r := range plans {
		for i := 0; i < M; i++ {
			switch t.Weighted(3, 2, 3, 2) {
			case 0:
				plans[r] = append(plans[r], readPlan{"list"})
			case 1:
				plans[r] = append(plans[r], readPlan{"rest"})
			case 3:
				plans[r] = append(plans[r], readPlan{"list-slow"})
			default:
				plans[r] = append(plans[r], readPlan{"get:" + nameList[t.Choose(len(nameList))]})
			}
		}
	}
	rc.Rec.CaseHash = fmt.Sprintf("%016x", fnv64(fmt.Sprint(kind, namesAt, plans), 0))
	desc := func(extra map[string]any) map[string]any {
		d := map[string]any{"manager": kind, "files": nFiles, "reloads": K, "model_states": namesAt, "readers": R}
		for k, v := range extra {
			d[k] = v
		}
		return d
	}

	et := rc.ExecTape(0)
	ls := NewLockSched(et)
	var ops []porcupine.Operation
	var hist []string
	outcome := ""
	var finalNames string
	var finalErr error
	tt := env.T.(*testing.T)
	func() {
		defer func() {
			if r := recover(); r != nil {
				ls.Uninstall()
				if outcome == "deadlock" && strings.Contains(fmt.Sprint(r), "blocked goroutines remain") {
					return // the goroutines of the deadlock reported below: they can never be released
				}
				rc.Violate("panic", "interleave/"+kind, fmt.Sprint(r), desc(map[string]any{"schedule": ls.Trace, "history": hist}), 0, et)
			}
		}()
		synctest.Test(tt, func(_ *testing.T) {
			ctx, cancel := context.WithCancel(context.Background())
			defer cancel()
			eventCh := make(watcherx.EventChannel)
			done := make(chan int)
			initDone := make(chan struct{})
			go config.VerifRunEventHandler(ctx, eventCh, m, done, initDone, cfg.VerifLogger())
			for _, in := range initial {
				eventCh <- mkChangeEvent(in.f.Path, []byte(in.v.Content))
				synctest.Wait()
			}
			done <- len(initial)
			<-initDone
			synctest.Wait()

			ls.Install()
			var finished atomic.Int32
			tasks := 1 + R
			callS := make([]int, K+2)
			retS := make([]int, K+2)
			// the deliverer
			go func() {
				for k := 1; k <= K; k++ {
					ls.Yield("deliver")
					callS[k] = ls.Stamp()
					eventCh <- mkChangeEvent(seq[k-1].f.Path, []byte(seq[k-1].v.Content))
					// the handler has taken event k: it is done with event k-1
					if k > 1 {
						retS[k-1] = ls.Stamp()
					}
				}
				finished.Add(1)
			}()
			type rd struct {
				call, ret int
				obs       c19Obs
			}
			reads := make([][]rd, R)
			for r := 0; r < R; r++ {
				r := r
				go func() {
					for _, p := range plans[r] {
						ls.Yield("read")
						x := rd{call: ls.Stamp(), obs: c19Obs{Acc: p.acc, Reader: r}}
						switch {
						case p.acc == "list":
							names, err := visibleNames(ctx, m)
							if err != nil {
								x.obs.Names = "error: " + err.Error()
							} else {
								x.obs.Names = fmt.Sprint(names)
							}
						case p.acc == "list-slow":
							// a reader that looks at the answer a little later (as a handler that
							// encodes it does): what Namespaces() returned is a snapshot and must
							// not change under the reader when a reload happens meanwhile
							nn, err := m.Namespaces(ctx)
							ls.Yield("reader holds the listing")
							if err != nil {
								x.obs.Names = "error: " + err.Error()
							} else {
								var names []string
								for _, n := range nn {
									if n == nil {
										names = append(names, "<nil>")
										continue
									}
									names = append(names, n.Name)
								}
								sort.Strings(names)
								x.obs.Names = fmt.Sprint(names)
							}
						case p.acc == "rest":
							rec := httptest.NewRecorder()
							readRouter.ServeHTTP(rec, httptest.NewRequest("GET", "http://keto.sim/namespaces", nil))
							var body struct {
								Namespaces []struct {
									Name string `json:"name"`
								} `json:"namespaces"`
							}
							_ = json.Unmarshal(rec.Body.Bytes(), &body)
							var rn []string
							for _, n := range body.Namespaces {
								rn = append(rn, n.Name)
							}
							sort.Strings(rn)
							x.obs.Names = fmt.Sprint(rn)
							if rec.Code != 200 {
								x.obs.Names = fmt.Sprintf("HTTP %d", rec.Code)
							}
						default:
							_, err := m.GetNamespaceByName(ctx, strings.TrimPrefix(p.acc, "get:"))
							x.obs.Found = err == nil
						}
						x.ret = ls.Stamp()
						reads[r] = append(reads[r], x)
					}
					finished.Add(1)
				}()
			}
			outcome = ls.Drive(func() bool { return int(finished.Load()) == tasks })
			if outcome == "ok" {
				retS[K] = ls.Stamp()
			}
			ls.ReleaseAll()
			if outcome == "ok" {
				var names []string
				names, finalErr = visibleNames(ctx, m)
				finalNames = fmt.Sprint(names)
				for k := 1; k <= K; k++ {
					ops = append(ops, porcupine.Operation{ClientId: 0, Input: c19In{Write: k}, Call: int64(callS[k]), Output: c19Obs{}, Return: int64(retS[k])})
					hist = append(hist, fmt.Sprintf("[%d,%d] reload %d: %s -> %v", callS[k], retS[k], k, seq[k-1].f.Path, seq[k-1].v.Names))
				}
				for r := range reads {
					for _, x := range reads[r] {
						ops = append(ops, porcupine.Operation{ClientId: 1 + r, Input: c19In{Acc: x.obs.Acc}, Call: int64(x.call), Output: x.obs, Return: int64(x.ret)})
						o := x.obs.Names
						if strings.HasPrefix(x.obs.Acc, "get:") {
							o = fmt.Sprint(x.obs.Found)
						}
						hist = append(hist, fmt.Sprintf("[%d,%d] reader %d %s = %s", x.call, x.ret, r, x.obs.Acc, o))
					}
				}
			}
			cancel()
			synctest.Wait()
		})
	}()
	rc.Rec.Execs++
	rc.AddSchedule(fnv64(fmt.Sprint(ls.Trace), 0))
	rc.Count("lock_acquisitions_scheduled", ls.Acquired)
	rc.Count("lock_contended", ls.Contended)
	rc.Count("readers_behind_a_waiting_writer", ls.ReadersBehindWriter)
	rc.Count("schedule_choices", ls.YieldsTaken)
	rc.Count("reloads", K)
	rc.Rec.NonTrivial = ls.YieldsTaken >= 4
	rc.Note(fmt.Sprintf("%s outcome=%s steps=%d trace=%v", kind, outcome, ls.Steps, ls.Trace))
	if len(rc.Rec.Violations) > 0 {
		return
	}
	w := func(extra map[string]any) map[string]any {
		d := desc(map[string]any{"history": hist, "schedule": ls.Trace})
		for k, v := range extra {
			d[k] = v
		}
		return d
	}
	switch outcome {
	case "deadlock":
		rc.Violate("deadlock", "interleave/"+kind, fmt.Sprintf("every goroutine waits for a lock: %v", ls.DeadlockSites), w(nil), 0, et)
		return
	case "stuck":
		rc.Violate("stuck", "interleave/"+kind, "the reloads were not all taken by the handler and the readers did not all return, yet nothing can run", w(nil), 0, et)
		return
	case "step-limit":
		rc.Count("inconclusive_step_limit", 1)
		return
	}
	if finalErr != nil || finalNames != namesAt[K] {
		rc.Violate("not-converged", "interleave/"+kind, fmt.Sprintf("after the last reload the manager lists %s (err %v), the last version is %s", finalNames, finalErr, namesAt[K]), w(nil), 0, et)
		return
	}
	model := porcupine.Model{
		Init: func() interface{} { return 0 },
		Step: func(state, input, output interface{}) (bool, interface{}) {
			st, in, out := state.(int), input.(c19In), output.(c19Obs)
			if in.Write > 0 {
				return true, in.Write
			}
			if strings.HasPrefix(in.Acc, "get:") {
				return out.Found == has(st, strings.TrimPrefix(in.Acc, "get:")), st
			}
			return out.Names == namesAt[st], st
		},
		Equal: func(a, b interface{}) bool { return a.(int) == b.(int) },
	}
	res := porcupine.CheckOperationsTimeout(model, ops, 20*time.Second)
	switch res {
	case porcupine.Illegal:
		rc.Violate("not-linearizable", "interleave/"+kind, "the reads cannot be explained by any order of the reloads that respects real time: some read shows namespaces that are neither the version in effect when it started nor a later one, or goes back to an older version", w(nil), 0, et)
	case porcupine.Unknown:
		rc.Count("inconclusive_porcupine_timeout", 1)
	default:
		rc.Count("porcupine_ok", 1)
	}
	if rc.WantSample && len(rc.Rec.Violations) == 0 {
		rc.Rec.Sample = w(nil)
	}
}
