// Package simlock is the simulator's lock seam. tools/lockyield rewrites every
// mutex operation of keto (in a build overlay, never in the source tree) into
// a call of Lock / Unlock below. Without an installed hook the calls go
// straight to the mutex; with a hook the simulator decides, from its seeded
// tape, which goroutine acquires which lock when.
package simlock

import "sync/atomic"

// Hooks: Acquire must return with the lock held (it calls try until it
// succeeds, parking the goroutine in between, or - for a site it does not want
// to schedule - simply calls lock); Released is called after the lock has been
// released.
type Hooks struct {
	Acquire  func(site string, try func() bool, lock func())
	Released func(site string)
	Yield    func(site string) // scheduling point in front of an operation on lock-free shared state
}

var hooks atomic.Pointer[Hooks]

// Sites counts the lock operations that went through the seam (evidence that
// the instrumented build is the one running).
var Sites atomic.Int64

func Install(h *Hooks) { hooks.Store(h) }

func Lock(site string, try func() bool, lock func()) {
	Sites.Add(1)
	if h := hooks.Load(); h != nil {
		h.Acquire(site, try, lock)
		return
	}
	lock()
}

func Unlock(site string, unlock func()) {
	unlock()
	if h := hooks.Load(); h != nil {
		h.Released(site)
	}
}

// Y is a scheduling point in front of a call X.M(args): the rewritten code calls
// Y("site", X.M)(args). Without a scheduler it only hands the method value back.
func Y[F any](site string, f F) F {
	if h := hooks.Load(); h != nil && h.Yield != nil {
		h.Yield(site)
	}
	return f
}
