package sim

import (
	"encoding/json"
	"fmt"
)

// Case generator. Every choice is drawn from the tape.

type Case struct {
	Cfg        *Config `json:"cfg"`
	Tuples     []Tuple `json:"tuples"`
	Query      Tuple   `json:"query"`
	Conforming bool    `json:"conforming"`
	Order      int     `json:"order"` // storage order policy for shard ids
	OrderSeed  uint64  `json:"order_seed"`
	PageSize   int     `json:"page_size"` // engine-side page size knob (0 = keto default)
}

func (c *Case) Hash() uint64 {
	b, _ := json.Marshal(struct {
		C *Config
		T []Tuple
		Q Tuple
	}{c.Cfg, c.Tuples, c.Query})
	return fnv64(string(b), 0)
}

func (c *Case) Describe() map[string]any {
	ts := make([]string, len(c.Tuples))
	for i, t := range c.Tuples {
		ts[i] = t.String()
	}
	d := map[string]any{
		"tuples": ts,
		"query":  c.Query.String(),
		"strict": c.Cfg.Strict,
		"enc":    []string{"none", "go-ast", "opl-full-parens", "opl-min-parens"}[c.Cfg.Enc],
		"order":  []string{"random", "asc", "desc"}[c.Order],
	}
	if c.Cfg.Enc == EncNone {
		var ns []string
		for _, n := range c.Cfg.NS {
			ns = append(ns, n.Name)
		}
		d["namespaces"] = ns
	} else {
		cc := *c.Cfg
		if cc.Enc == EncAST {
			cc.Enc = EncOPL
		}
		d["config_opl"] = cc.ToOPL()
	}
	return d
}

type GenOpts struct {
	AllowRecursion bool // permissions may reference any permission (self / mutual recursion)
	Enc            int  // -1: tape chooses
	NoNegation     bool
	RewriteFree    bool // only EncNone / plain relations
	MaxTuples      int
	MinParens      bool // allow EncOPLMin
	ForceDefault   bool // never strict
	Gadgets        bool // bias towards shapes known to matter
	WideNode       int  // if > 0: add one node with this many subject-set children
	WideMember     bool // with WideNode: in half of the cases the query subject is a member of ONE of those children (a width cut can hide it)
}

type genState struct {
	t      *Tape
	o      GenOpts
	cfg    *Config
	objs   map[string][]string
	users  []string
	travRe map[string]map[string][]string // ns -> rel -> namespaces that must declare the computed relation
}

func GenCase(t *Tape, o GenOpts) *Case {
	g := &genState{t: t, o: o, objs: map[string][]string{}, travRe: map[string]map[string][]string{}}
	enc := o.Enc
	if o.RewriteFree {
		enc = EncNone
		if t.Bool(1, 3) {
			enc = EncAST
		}
	} else if enc < 0 {
		switch t.Weighted(1, 3, 4) {
		case 0:
			enc = EncNone
		case 1:
			enc = EncAST
		default:
			enc = EncOPL
			if o.MinParens && t.Bool(1, 2) {
				enc = EncOPLMin
			}
		}
	}
	g.genConfig(enc)
	c := &Case{Cfg: g.cfg}
	c.Conforming = enc == EncOPL || enc == EncOPLMin
	if c.Conforming && t.Bool(1, 3) {
		c.Conforming = false
	}
	if c.Conforming && !o.ForceDefault && (enc == EncOPL || enc == EncOPLMin) {
		g.cfg.Strict = t.Bool(1, 2)
	}
	g.genObjects()
	maxT := o.MaxTuples
	if maxT == 0 {
		maxT = 25
	}
	nT := t.Weighted(1, 4, 6, 3)
	switch nT {
	case 0:
		nT = t.Range(0, 3)
	case 1:
		nT = t.Range(3, 8)
	case 2:
		nT = t.Range(6, 14)
	default:
		nT = t.Range(10, maxT)
	}
	if nT > maxT {
		nT = maxT
	}
	qs := g.genSubject(nil, false)
	for i := 0; i < nT; i++ {
		if i > 0 && t.Bool(1, 10) {
			c.Tuples = append(c.Tuples, c.Tuples[t.Choose(len(c.Tuples))])
			continue
		}
		c.Tuples = append(c.Tuples, g.genTuple(c.Conforming, qs))
	}
	c.Query = g.genQuery(qs, c.Tuples)
	if o.Gadgets && !c.Conforming && t.Bool(1, 2) {
		ts, nq := g.gadget(c.Query)
		c.Tuples = append(c.Tuples, ts...)
		if nq != nil {
			c.Query = *nq
		}
	}
	if o.WideNode > 0 {
		c.Tuples = append(c.Tuples, g.wide(c.Query, o.WideNode)...)
		if o.WideMember && t.Bool(1, 2) {
			c.Tuples = append(c.Tuples, Tuple{NS: c.Query.NS, Obj: fmt.Sprintf("w%d", t.Choose(o.WideNode)), Rel: "r0", Sub: c.Query.Sub})
		}
	}
	// the store stays well-formed: a relation that some traverse walks over only
	// holds subject sets of namespaces that declare the computed relation
	// (gadget and wide-node tuples included)
	{
		var kept []Tuple
		for _, x := range c.Tuples {
			if tns, ok := g.travRe[x.NS][x.Rel]; ok && x.Sub.Set != nil {
				allowed := false
				for _, n := range tns {
					if n == x.Sub.Set.NS {
						allowed = true
					}
				}
				if !allowed {
					continue
				}
			}
			kept = append(kept, x)
		}
		c.Tuples = kept
	}
	// shuffle so that storage order is unrelated to generation order
	for i := len(c.Tuples) - 1; i > 0; i-- {
		j := t.Choose(i + 1)
		c.Tuples[i], c.Tuples[j] = c.Tuples[j], c.Tuples[i]
	}
	c.Order = t.Choose(3)
	c.OrderSeed = uint64(t.Choose(1 << 30))
	if t.Bool(1, 2) {
		c.PageSize = t.Range(1, 3)
	}
	return c
}

func (g *genState) genConfig(enc int) {
	t := g.t
	cfg := &Config{Enc: enc}
	g.cfg = cfg
	nNS := t.Range(1, 3)
	type shape struct{ plain, perm int }
	shapes := make([]shape, nNS)
	for i := 0; i < nNS; i++ {
		shapes[i] = shape{plain: t.Range(1, 3)}
		if enc != EncNone {
			shapes[i].perm = t.Weighted(2, 4, 3, 1)
		}
		cfg.NS = append(cfg.NS, &NSDef{Name: fmt.Sprintf("N%d", i)})
	}
	relName := func(ns int, k int) string {
		if k < shapes[ns].plain {
			return fmt.Sprintf("r%d", k)
		}
		return fmt.Sprintf("p%d", k-shapes[ns].plain)
	}
	// plain relations with types
	for i, n := range cfg.NS {
		for k := 0; k < shapes[i].plain; k++ {
			rd := &RelDef{Name: fmt.Sprintf("r%d", k)}
			nt := t.Range(1, 2)
			for x := 0; x < nt; x++ {
				j := t.Choose(nNS)
				tr := TypeRef{NS: cfg.NS[j].Name}
				if t.Bool(1, 2) {
					tr.Rel = relName(j, t.Choose(shapes[j].plain+shapes[j].perm))
				}
				dup := false
				for _, e := range rd.Types {
					if e == tr {
						dup = true
					}
				}
				if !dup {
					rd.Types = append(rd.Types, tr)
				}
			}
			n.Rels = append(n.Rels, rd)
		}
	}
	if enc == EncNone {
		return
	}
	// permissions
	for i, n := range cfg.NS {
		for k := 0; k < shapes[i].perm; k++ {
			n.Rels = append(n.Rels, &RelDef{Name: fmt.Sprintf("p%d", k)})
		}
	}
	for i, n := range cfg.NS {
		for k := 0; k < shapes[i].perm; k++ {
			rd := n.FindRel(fmt.Sprintf("p%d", k))
			rd.Rewrite = g.genExpr(i, k, shapes[i].perm, t.Range(0, 3), 0)
		}
	}
}

// genExpr generates a permission body for permission index self in namespace nsIdx.
func (g *genState) genExpr(nsIdx, self, nPerm, depth, nots int) *Expr {
	t := g.t
	n := g.cfg.NS[nsIdx]
	if depth <= 0 || t.Bool(1, 4) {
		return g.genLeaf(n, self, nPerm)
	}
	wNot := 2
	if g.o.NoNegation {
		wNot = 0
	}
	switch t.Weighted(4, 4, wNot) {
	case 0, 1:
		k := ExOr
		if t.Bool(1, 2) {
			k = ExAnd
		}
		e := &Expr{Kind: k}
		nc := t.Range(2, 3)
		for i := 0; i < nc; i++ {
			e.Children = append(e.Children, g.genExpr(nsIdx, self, nPerm, depth-1, nots))
		}
		return e
	default:
		return &Expr{Kind: ExNot, Children: []*Expr{g.genExpr(nsIdx, self, nPerm, depth-1, nots+1)}}
	}
}

func (g *genState) genLeaf(n *NSDef, self, nPerm int) *Expr {
	t := g.t
	var plain []*RelDef
	for _, r := range n.Rels {
		if len(r.Types) > 0 {
			plain = append(plain, r)
		}
	}
	switch t.Weighted(5, 3, 4) {
	case 1: // permits
		var cands []string
		for k := 0; k < nPerm; k++ {
			if g.o.AllowRecursion || k < self {
				cands = append(cands, fmt.Sprintf("p%d", k))
			}
		}
		if len(cands) > 0 {
			return &Expr{Kind: ExPermits, Rel: cands[t.Choose(len(cands))]}
		}
	case 2: // traverse over a relation whose types are all plain namespaces
		var rels []*RelDef
		for _, r := range plain {
			ok := true
			for _, ty := range r.Types {
				if ty.Rel != "" {
					ok = false
				}
			}
			if ok {
				rels = append(rels, r)
			}
		}
		if len(rels) > 0 {
			r := rels[t.Choose(len(rels))]
			// computed relations declared by every namespace r can point to
			var cands []string
			first := g.cfg.FindNS(r.Types[0].NS)
			for _, c := range first.Rels {
				all := true
				for _, ty := range r.Types[1:] {
					if g.cfg.FindNS(ty.NS).FindRel(c.Name) == nil {
						all = false
					}
				}
				if !all {
					continue
				}
				// a permission in one target and a plain relation in another cannot be
				// rendered as one TypeScript expression
				isPerm := c.Rewrite != nil || (len(c.Types) == 0)
				same := true
				for _, ty := range r.Types[1:] {
					o := g.cfg.FindNS(ty.NS).FindRel(c.Name)
					if (len(o.Types) == 0) != isPerm {
						same = false
					}
				}
				if same {
					cands = append(cands, c.Name)
				}
			}
			if len(cands) > 0 {
				c := cands[t.Choose(len(cands))]
				if g.travRe[n.Name] == nil {
					g.travRe[n.Name] = map[string][]string{}
				}
				var tns []string
				for _, ty := range r.Types {
					tns = append(tns, ty.NS)
				}
				g.travRe[n.Name][r.Name] = tns
				return &Expr{Kind: ExTraverse, Rel: r.Name, Computed: c, ViaPermits: len(first.FindRel(c).Types) == 0}
			}
		}
	}
	return &Expr{Kind: ExIncludes, Rel: plain[t.Choose(len(plain))].Name}
}

func (g *genState) genObjects() {
	for _, n := range g.cfg.NS {
		k := g.t.Range(2, 4)
		for i := 0; i < k; i++ {
			g.objs[n.Name] = append(g.objs[n.Name], fmt.Sprintf("o%d", i))
		}
	}
	g.users = []string{"u0", "u1", "u2"}
}

func (g *genState) anyRel(n *NSDef, allowEmpty bool) string {
	if g.cfg.Enc == EncNone {
		pool := []string{"r0", "r1", "r2"}
		if allowEmpty {
			pool = append(pool, "")
		}
		return pool[g.t.Choose(len(pool))]
	}
	k := g.t.Choose(len(n.Rels) + 1)
	if k == len(n.Rels) {
		if allowEmpty {
			return ""
		}
		k = 0
	}
	return n.Rels[k].Name
}

// genSubject: a subject for a tuple. types == nil: arbitrary.
func (g *genState) genSubject(types []TypeRef, conforming bool) Subject {
	t := g.t
	if types != nil {
		ty := types[t.Choose(len(types))]
		if ty.Rel == "" && t.Bool(1, 2) {
			return Subject{ID: g.users[t.Choose(len(g.users))]}
		}
		os := g.objs[ty.NS]
		return Subject{Set: &SetRef{NS: ty.NS, Obj: os[t.Choose(len(os))], Rel: ty.Rel}}
	}
	if t.Bool(2, 5) {
		return Subject{ID: g.users[t.Choose(len(g.users))]}
	}
	n := g.cfg.NS[t.Choose(len(g.cfg.NS))]
	os := g.objs[n.Name]
	return Subject{Set: &SetRef{NS: n.Name, Obj: os[t.Choose(len(os))], Rel: g.anyRel(n, true)}}
}

func (g *genState) genTuple(conforming bool, qs Subject) Tuple {
	t := g.t
	n := g.cfg.NS[t.Choose(len(g.cfg.NS))]
	os := g.objs[n.Name]
	tu := Tuple{NS: n.Name, Obj: os[t.Choose(len(os))]}
	if g.cfg.Enc == EncNone {
		tu.Rel = g.anyRel(n, false)
		if t.Bool(1, 4) {
			tu.Sub = qs
		} else {
			tu.Sub = g.genSubject(nil, false)
		}
		return tu
	}
	var plain []*RelDef
	for _, r := range n.Rels {
		if len(r.Types) > 0 {
			plain = append(plain, r)
		}
	}
	rd := plain[t.Choose(len(plain))]
	if !conforming && t.Bool(1, 8) {
		rd = n.Rels[t.Choose(len(n.Rels))] // may be a permission: direct tuple on a permission
	}
	tu.Rel = rd.Name
	if len(rd.Types) > 0 && (conforming || t.Bool(2, 3)) {
		// type-conforming subject; sometimes exactly the query subject if it conforms
		tu.Sub = g.genSubject(rd.Types, true)
		if t.Bool(1, 4) && g.conforms(rd.Types, qs) {
			tu.Sub = qs
		}
		return tu
	}
	// arbitrary subject (default mode only); relations that some traverse walks
	// over only point into namespaces that declare the computed relation
	if tns, ok := g.travRe[n.Name][rd.Name]; ok {
		if t.Bool(1, 3) {
			tu.Sub = Subject{ID: g.users[t.Choose(len(g.users))]}
			return tu
		}
		nn := g.cfg.FindNS(tns[t.Choose(len(tns))])
		oo := g.objs[nn.Name]
		tu.Sub = Subject{Set: &SetRef{NS: nn.Name, Obj: oo[t.Choose(len(oo))], Rel: g.anyRel(nn, true)}}
		return tu
	}
	if t.Bool(1, 4) {
		tu.Sub = qs
	} else {
		tu.Sub = g.genSubject(nil, false)
	}
	return tu
}

func (g *genState) conforms(types []TypeRef, s Subject) bool {
	for _, ty := range types {
		if s.Set == nil {
			if ty.Rel == "" {
				return true
			}
			continue
		}
		if s.Set.NS == ty.NS && s.Set.Rel == ty.Rel {
			return true
		}
	}
	return false
}

func (g *genState) genQuery(qs Subject, tuples []Tuple) Tuple {
	t := g.t
	n := g.cfg.NS[t.Choose(len(g.cfg.NS))]
	os := g.objs[n.Name]
	q := Tuple{NS: n.Name, Obj: os[t.Choose(len(os))], Sub: qs}
	if g.cfg.Enc == EncNone {
		q.Rel = g.anyRel(n, false)
		// prefer a node that exists
		if len(tuples) > 0 && t.Bool(3, 4) {
			x := tuples[t.Choose(len(tuples))]
			q.NS, q.Obj, q.Rel = x.NS, x.Obj, x.Rel
		}
		return q
	}
	q.Rel = n.Rels[t.Choose(len(n.Rels))].Name
	// prefer permissions: they are where the engine has work to do
	var perms []*RelDef
	for _, r := range n.Rels {
		if r.Rewrite != nil {
			perms = append(perms, r)
		}
	}
	if len(perms) > 0 && t.Bool(2, 3) {
		q.Rel = perms[t.Choose(len(perms))].Name
	}
	return q
}

// gadget adds the shapes the design probes showed to matter: the same subject
// set, two hops away from the subject, reachable from two operands of one
// rewrite, with the query entering through an outer expansion.
func (g *genState) gadget(q Tuple) ([]Tuple, *Tuple) {
	t := g.t
	if g.cfg.Enc == EncNone {
		return nil, nil
	}
	n := g.cfg.FindNS(q.NS)
	rd := n.FindRel(q.Rel)
	if rd == nil || rd.Rewrite == nil {
		return nil, nil
	}
	var leaves []string
	var walk func(e *Expr)
	walk = func(e *Expr) {
		if e.Kind == ExIncludes {
			leaves = append(leaves, e.Rel)
		}
		for _, c := range e.Children {
			walk(c)
		}
	}
	walk(rd.Rewrite)
	if len(leaves) == 0 {
		return nil, nil
	}
	gn := g.cfg.NS[t.Choose(len(g.cfg.NS))]
	gr := "r0"
	var out []Tuple
	G := &SetRef{NS: gn.Name, Obj: "g", Rel: gr}
	H := &SetRef{NS: gn.Name, Obj: "h", Rel: gr}
	seen := map[string]bool{}
	for _, l := range leaves {
		if seen[l] {
			continue
		}
		seen[l] = true
		// a relation that some traverse walks over only points into namespaces
		// that declare the computed relation (the store stays well-formed)
		if tns, ok := g.travRe[q.NS][l]; ok {
			allowed := false
			for _, n := range tns {
				if n == G.NS {
					allowed = true
				}
			}
			if !allowed {
				t.Choose(4) // keep the tape layout
				continue
			}
		}
		if t.Bool(3, 4) {
			out = append(out, Tuple{NS: q.NS, Obj: q.Obj, Rel: l, Sub: Subject{Set: G}})
		}
	}
	out = append(out, Tuple{NS: G.NS, Obj: G.Obj, Rel: G.Rel, Sub: Subject{Set: H}})
	if t.Bool(3, 4) {
		out = append(out, Tuple{NS: H.NS, Obj: H.Obj, Rel: H.Rel, Sub: q.Sub})
	}
	if t.Bool(1, 2) {
		// enter through an outer expansion: some other node points at the query node
		on := g.cfg.NS[t.Choose(len(g.cfg.NS))]
		out = append(out, Tuple{NS: on.Name, Obj: "top", Rel: "r0", Sub: Subject{Set: &SetRef{NS: q.NS, Obj: q.Obj, Rel: q.Rel}}})
		return out, &Tuple{NS: on.Name, Obj: "top", Rel: "r0", Sub: q.Sub}
	}
	return out, nil
}

func (g *genState) wide(q Tuple, k int) []Tuple {
	var out []Tuple
	n := g.cfg.FindNS(q.NS)
	rel := "r0"
	// the wide node's children are subject sets n:w_i#r0: the relation has to be
	// declared to hold them, or strict mode (rightly) never follows them
	if rd := n.FindRel(rel); rd != nil && rd.Rewrite == nil && g.cfg.Enc != EncNone {
		has := false
		for _, ty := range rd.Types {
			if ty.NS == n.Name && ty.Rel == rel {
				has = true
			}
		}
		if !has {
			rd.Types = append(rd.Types, TypeRef{NS: n.Name, Rel: rel})
		}
	}
	for i := 0; i < k; i++ {
		out = append(out, Tuple{NS: q.NS, Obj: q.Obj, Rel: rel, Sub: Subject{Set: &SetRef{NS: n.Name, Obj: fmt.Sprintf("w%d", i), Rel: rel}}})
	}
	return out
}
