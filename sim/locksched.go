package sim

import (
	"fmt"
	"strings"
	"sync"
	"testing/synctest"
	"unsafe"

	"github.com/ory/keto/verifsim/simlock"
)

// LockSched is the tier-K scheduler: the unit of scheduling is a mutex
// operation. Every Lock / RLock / Unlock / RUnlock of keto goes through the
// simlock seam (build overlay written by tools/lockyield); with this scheduler
// installed a goroutine parks before each acquisition and after each release,
// holding nothing the scheduler does not know about, and the controller - which
// runs when testing/synctest reports every goroutine of the bubble durably
// blocked - resumes exactly one parked goroutine chosen by the tape. An
// acquisition is carried out with TryLock under the controller's eye: a
// goroutine whose TryLock fails is set aside until some lock is released, so no
// goroutine ever blocks inside a sync.Mutex (which synctest could not see).
//
// Scenario code adds its own yield points with Yield (before a read, before
// handing an event to the handler).
type LockSched struct {
	mu      sync.Mutex
	parked  []*lockWaiter
	seq     int
	tape    *Tape
	Trace   []string
	Steps   int
	MaxStep int
	// counters
	Acquired, Contended, YieldsTaken int
	Deadlock                         bool
	DeadlockSites                    []string
	clock                            int // logical clock for history stamps
	waitingWriters                   map[string]int
	ReadersBehindWriter              int
}

type lockWaiter struct {
	site    string
	seq     int
	blocked bool // TryLock failed; runnable again after the next release
	ch      chan struct{}
}

func NewLockSched(t *Tape) *LockSched { return &LockSched{tape: t, MaxStep: 20000} }

// Stamp returns the next value of the simulator's logical clock.
func (s *LockSched) Stamp() int {
	s.mu.Lock()
	defer s.mu.Unlock()
	s.clock++
	return s.clock
}

func (s *LockSched) park(site string, blocked bool) {
	w := &lockWaiter{site: site, blocked: blocked, ch: make(chan struct{})}
	s.mu.Lock()
	s.seq++
	w.seq = s.seq
	s.parked = append(s.parked, w)
	s.mu.Unlock()
	<-w.ch
}

// Yield is a scheduling point of scenario code.
func (s *LockSched) Yield(site string) { s.park(site, false) }

// acquire models sync.RWMutex's writer preference as well: from the moment a
// Lock() call waits, RLock() calls on the same mutex wait behind it (which is
// what turns a read lock taken twice by one goroutine into a deadlock when a
// writer arrives in between). The waiting writer is only known to the scheduler
// - it never blocks inside the real mutex - so readers consult the scheduler's
// book of waiting writers before they try.
func (s *LockSched) acquire(site string, try func() bool, _ func()) {
	s.park(site, false)
	key := lockKey(site, try)
	write := strings.HasSuffix(site, ":Lock")
	read := strings.HasSuffix(site, ":RLock")
	waiting := false
	for {
		s.mu.Lock()
		behindWriter := read && s.waitingWriters[key] > 0
		s.mu.Unlock()
		if !behindWriter && try() {
			break
		}
		s.mu.Lock()
		s.Contended++
		if behindWriter {
			s.ReadersBehindWriter++
		}
		if write && !waiting {
			if s.waitingWriters == nil {
				s.waitingWriters = map[string]int{}
			}
			s.waitingWriters[key]++
			waiting = true
		}
		s.mu.Unlock()
		s.park(site, true)
	}
	s.mu.Lock()
	if waiting {
		s.waitingWriters[key]--
	}
	s.Acquired++
	s.mu.Unlock()
}

// lockKey identifies the mutex of a rewritten call X.Lock(): the receiver bound
// into the method value X.TryLock (a method value is a pointer to a closure
// object {code, receiver}) together with the source file of the call. Two
// different mutexes never share a key unless one struct holds both at offset 0
// and embedded (keto has no such struct); one mutex used from two files has two
// keys, which only means that writer preference is not modelled across them.
func lockKey(site string, try func() bool) string {
	file := site
	if i := strings.Index(site, ":"); i > 0 {
		file = site[:i]
	}
	var recv uintptr
	if p := *(*unsafe.Pointer)(unsafe.Pointer(&try)); p != nil {
		recv = (*[2]uintptr)(p)[1]
	}
	return fmt.Sprintf("%s@%x", file, recv)
}

func (s *LockSched) released(site string) {
	s.mu.Lock()
	for _, w := range s.parked {
		w.blocked = false
	}
	s.mu.Unlock()
	s.park(site+"+", false)
}

func (s *LockSched) Install() {
	simlock.Install(&simlock.Hooks{Acquire: s.acquire, Released: s.released, Yield: func(site string) { s.park(site, false) }})
}

func (s *LockSched) Uninstall() { simlock.Install(nil) }

// Drive runs until no goroutine is parked at the seam any more (done() is then
// consulted: true - the scenario is over; false - the goroutines wait for
// something that will never come: reported as stuck).
// It returns "ok", "deadlock", "stuck" or "step-limit".
func (s *LockSched) Drive(done func() bool) string {
	for {
		synctest.Wait()
		s.mu.Lock()
		var run []*lockWaiter
		blocked := 0
		for _, w := range s.parked {
			if w.blocked {
				blocked++
			} else {
				run = append(run, w)
			}
		}
		if len(run) == 0 {
			if blocked > 0 {
				s.Deadlock = true
				for _, w := range s.parked {
					s.DeadlockSites = append(s.DeadlockSites, w.site)
				}
				s.mu.Unlock()
				return "deadlock"
			}
			s.mu.Unlock()
			if done() {
				return "ok"
			}
			return "stuck"
		}
		s.Steps++
		if s.Steps > s.MaxStep {
			s.mu.Unlock()
			return "step-limit"
		}
		i := 0
		if len(run) > 1 {
			i = s.tape.Choose(len(run))
			s.YieldsTaken++
		}
		w := run[i]
		for j, p := range s.parked {
			if p == w {
				s.parked = append(s.parked[:j], s.parked[j+1:]...)
				break
			}
		}
		s.Trace = append(s.Trace, fmt.Sprintf("%d/%d:%s", i, len(run), w.site))
		s.mu.Unlock()
		close(w.ch)
	}
}

// ReleaseAll lets every parked goroutine go (used when a run is abandoned).
func (s *LockSched) ReleaseAll() {
	s.Uninstall()
	for round := 0; round < 10000; round++ {
		synctest.Wait()
		s.mu.Lock()
		ps := s.parked
		s.parked = nil
		s.mu.Unlock()
		if len(ps) == 0 {
			return
		}
		for _, w := range ps {
			close(w.ch)
		}
	}
}
