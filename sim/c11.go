package sim

import (
	"encoding/base64"
	"fmt"
	"strings"

	"github.com/ory/keto/internal/driver/config"

	"github.com/ory/keto/internal/schema"
)

// C11 – a configuration that type-checks cannot fail at check time (tier E);
// the converse half (an undeclared reference is rejected at the offending
// token) is a plain seeded generator check, reported separately (mode
// "reject"): it has no schedule, fault or history in it.

func init() { Props["C11"] = runC11 }

// genTyped generates a typed OPL program that stresses relations typed
// SubjectSet<T,R> and traverse over them. It is filtered by keto's real parser.
func genTyped(t *Tape) *Config {
	cfg := &Config{Enc: EncOPL}
	nNS := t.Range(2, 4)
	type shape struct{ plain, perm int }
	shapes := make([]shape, nNS)
	for i := 0; i < nNS; i++ {
		shapes[i] = shape{plain: t.Range(1, 3), perm: t.Range(0, 2)}
		cfg.NS = append(cfg.NS, &NSDef{Name: fmt.Sprintf("N%d", i)})
	}
	// N0 is often a plain "user" namespace
	if t.Bool(1, 2) {
		shapes[0] = shape{plain: 0, perm: 0}
	}
	relName := func(ns, k int) string {
		if k < shapes[ns].plain {
			return fmt.Sprintf("r%d", k)
		}
		return fmt.Sprintf("p%d", k-shapes[ns].plain)
	}
	for i, n := range cfg.NS {
		for k := 0; k < shapes[i].plain; k++ {
			rd := &RelDef{Name: fmt.Sprintf("r%d", k)}
			nt := t.Range(1, 2)
			for x := 0; x < nt; x++ {
				j := t.Choose(nNS)
				tr := TypeRef{NS: cfg.NS[j].Name}
				if tot := shapes[j].plain + shapes[j].perm; tot > 0 && t.Bool(3, 5) {
					tr.Rel = relName(j, t.Choose(tot))
				}
				dup := false
				for _, e := range rd.Types {
					if e == tr {
						dup = true
					}
				}
				if !dup {
					rd.Types = append(rd.Types, tr)
				}
			}
			n.Rels = append(n.Rels, rd)
		}
		for k := 0; k < shapes[i].perm; k++ {
			n.Rels = append(n.Rels, &RelDef{Name: fmt.Sprintf("p%d", k)})
		}
	}
	for i, n := range cfg.NS {
		var plain []*RelDef
		for _, r := range n.Rels {
			if len(r.Types) > 0 {
				plain = append(plain, r)
			}
		}
		for k := 0; k < shapes[i].perm; k++ {
			rd := n.FindRel(fmt.Sprintf("p%d", k))
			var leaf func() *Expr
			leaf = func() *Expr {
				if len(plain) == 0 {
					return &Expr{Kind: ExPermits, Rel: fmt.Sprintf("p%d", t.Choose(shapes[i].perm))}
				}
				switch t.Weighted(2, 1, 5) {
				case 0:
					return &Expr{Kind: ExIncludes, Rel: plain[t.Choose(len(plain))].Name}
				case 1:
					if k > 0 {
						return &Expr{Kind: ExPermits, Rel: fmt.Sprintf("p%d", t.Choose(k))}
					}
					return &Expr{Kind: ExIncludes, Rel: plain[t.Choose(len(plain))].Name}
				default:
					r := plain[t.Choose(len(plain))]
					c := []string{"r0", "r1", "p0", "p1"}[t.Choose(4)]
					return &Expr{Kind: ExTraverse, Rel: r.Name, Computed: c, ViaPermits: c[0] == 'p'}
				}
			}
			if t.Bool(1, 2) {
				rd.Rewrite = leaf()
			} else {
				k := ExOr
				if t.Bool(1, 3) {
					k = ExAnd
				}
				rd.Rewrite = &Expr{Kind: k, Children: []*Expr{leaf(), leaf()}}
			}
		}
	}
	// One program in six declares a name twice in one namespace: a permission with
	// the name of a relation that some permission of that namespace traverses or
	// includes (declared after the relation). The engine resolves a name to its
	// first declaration; the type checker has to look at the same one.
	if t.Bool(1, 6) {
		var cands [][2]int
		for i, n := range cfg.NS {
			used := map[string]bool{}
			for _, r := range n.Rels {
				var walk func(e *Expr)
				walk = func(e *Expr) {
					if e == nil {
						return
					}
					if e.Kind == ExTraverse || e.Kind == ExIncludes {
						used[e.Rel] = true
					}
					for _, c := range e.Children {
						walk(c)
					}
				}
				walk(r.Rewrite)
			}
			for j, r := range n.Rels {
				if r.Rewrite == nil && used[r.Name] {
					cands = append(cands, [2]int{i, j})
				}
			}
		}
		if len(cands) > 0 {
			c := cands[t.Choose(len(cands))]
			n := cfg.NS[c[0]]
			r := n.Rels[c[1]]
			n.Rels = append(n.Rels, &RelDef{Name: r.Name, Rewrite: &Expr{Kind: ExIncludes, Rel: r.Name}})
		}
	}
	// A union-typed parent relation whose member namespaces define the inherited
	// permission through relations the other one lacks (File.view = owners,
	// Folder.view = readers, Doc.view = parents.traverse(view)): resolving the
	// computed relation in the wrong namespace surfaces as a schema error.
	if t.Bool(1, 4) {
		user := cfg.NS[0].Name
		ga := &NSDef{Name: "GA", Rels: []*RelDef{{Name: "owners", Types: []TypeRef{{NS: user}}}, {Name: "view", Rewrite: &Expr{Kind: ExIncludes, Rel: "owners"}}}}
		gb := &NSDef{Name: "GB", Rels: []*RelDef{{Name: "readers", Types: []TypeRef{{NS: user}}}, {Name: "view", Rewrite: &Expr{Kind: ExIncludes, Rel: "readers"}}}}
		gc := &NSDef{Name: "GC", Rels: []*RelDef{{Name: "parents", Types: []TypeRef{{NS: "GA"}, {NS: "GB"}}},
			{Name: "view", Rewrite: &Expr{Kind: ExTraverse, Rel: "parents", Computed: "view", ViaPermits: true}}}}
		if t.Bool(1, 2) {
			ga, gb = gb, ga // declaration order
		}
		cfg.NS = append(cfg.NS, ga, gb, gc)
	}
	// One program in three: a relation typed as a union of two to four subject
	// sets that several permissions traverse, in a class that comes first or last
	// in the document (every traversed alternative is one more thing the type
	// checker has to look up, in whatever order it does its look-ups); and one
	// program in three writes `permits` before `related` in every class.
	if t.Bool(1, 3) {
		// (the type checker follows a subject-set type into the types of its relation:
		// those have to declare the traversed relation too - HU does)
		user := "HU"
		k := t.Range(2, 4)
		var alts []TypeRef
		groups := []*NSDef{{Name: "HU", Rels: []*RelDef{{Name: "members", Types: []TypeRef{{NS: "HU"}}}}}}
		for i := 0; i < k; i++ {
			name := fmt.Sprintf("H%c", 'A'+i)
			groups = append(groups, &NSDef{Name: name, Rels: []*RelDef{{Name: "members", Types: []TypeRef{{NS: user}}}}})
			alts = append(alts, TypeRef{NS: name, Rel: "members"})
		}
		trav := func() *Expr { return &Expr{Kind: ExTraverse, Rel: "shared", Computed: "members"} }
		hx := &NSDef{Name: "HX", Rels: []*RelDef{
			{Name: "shared", Types: alts},
			{Name: "owners", Types: []TypeRef{{NS: user}}},
			{Name: "view", Rewrite: &Expr{Kind: ExOr, Children: []*Expr{trav(), {Kind: ExIncludes, Rel: "owners"}}}},
			{Name: "edit", Rewrite: &Expr{Kind: ExAnd, Children: []*Expr{trav(), {Kind: ExIncludes, Rel: "owners"}}}},
			{Name: "del", Rewrite: trav()}}}
		if t.Bool(1, 2) {
			cfg.NS = append(append([]*NSDef{hx}, cfg.NS...), groups...)
		} else {
			cfg.NS = append(append(cfg.NS, groups...), hx)
		}
	}
	cfg.PermitsFirst = t.Bool(1, 3)
	cfg.AnnotateTraverse = t.Bool(1, 8)
	if cfg.AnnotateTraverse {
		// with annotations: a union-typed relation whose first type has the inherited
		// permission and whose second type has not (the annotation names the first;
		// without it the document does not type-check)
		user := cfg.NS[0].Name
		cfg.NS = append(cfg.NS,
			&NSDef{Name: "TA", Rels: []*RelDef{{Name: "members", Types: []TypeRef{{NS: user}}}, {Name: "view", Rewrite: &Expr{Kind: ExIncludes, Rel: "members"}}}},
			&NSDef{Name: "TB", Rels: []*RelDef{{Name: "others", Types: []TypeRef{{NS: user}}}}},
			&NSDef{Name: "TC", Rels: []*RelDef{{Name: "parents", Types: []TypeRef{{NS: "TA"}, {NS: "TB"}}},
				{Name: "view", Rewrite: &Expr{Kind: ExTraverse, Rel: "parents", Computed: "view", ViaPermits: true}}}})
	}
	if cfg.PermitsFirst {
		// the model lists the members in document order (a name resolves to its first declaration)
		for _, n := range cfg.NS {
			var perms, plain []*RelDef
			for _, r := range n.Rels {
				if r.Rewrite != nil {
					perms = append(perms, r)
				} else {
					plain = append(plain, r)
				}
			}
			n.Rels = append(perms, plain...)
		}
	}
	return cfg
}

// conformingStore: tuples that conform to the declared types.
func conformingStore(t *Tape, cfg *Config) []Tuple {
	var ts []Tuple
	objs := func(ns string) string { return fmt.Sprintf("o%d", t.Choose(3)) }
	n := t.Range(3, 18)
	var rels []struct {
		ns string
		r  *RelDef
	}
	for _, nsd := range cfg.NS {
		for _, r := range nsd.Rels {
			if len(r.Types) > 0 {
				rels = append(rels, struct {
					ns string
					r  *RelDef
				}{nsd.Name, r})
			}
		}
	}
	if len(rels) == 0 {
		return nil
	}
	if cfg.FindNS("GC") != nil {
		// one object with parents of both kinds, members on either side
		o := objs("GC")
		ts = append(ts,
			Tuple{NS: "GC", Obj: o, Rel: "parents", Sub: Subject{Set: &SetRef{NS: "GA", Obj: objs("GA")}}},
			Tuple{NS: "GC", Obj: o, Rel: "parents", Sub: Subject{Set: &SetRef{NS: "GB", Obj: objs("GB")}}})
	}
	for i := 0; i < n; i++ {
		x := rels[t.Choose(len(rels))]
		ty := x.r.Types[t.Choose(len(x.r.Types))]
		tu := Tuple{NS: x.ns, Obj: objs(x.ns), Rel: x.r.Name}
		if ty.Rel == "" && t.Bool(1, 3) {
			tu.Sub = Subject{ID: fmt.Sprintf("u%d", t.Choose(3))}
		} else {
			tu.Sub = Subject{Set: &SetRef{NS: ty.NS, Obj: objs(ty.NS), Rel: ty.Rel}}
		}
		ts = append(ts, tu)
	}
	return ts
}

func isSchemaError(msg string) bool {
	return strings.Contains(msg, "does not exist") || strings.Contains(msg, "not implemented") || strings.Contains(msg, "malformed or contained invalid parameters")
}

func runC11(env *Env, rc *RunCtx) {
	if rc.Mode == "reject" {
		runC11Reject(env, rc)
		return
	}
	if rc.Mode == "mutants" {
		runC11Mutants(env, rc)
		return
	}
	t := rc.CaseTape
	cfg := genTyped(t)
	cfg.Strict = t.Bool(1, 2)
	opl := cfg.ToOPL()
	_, perrs := schema.Parse(opl)
	if len(perrs) > 0 {
		rc.Rec.Skipped = "rejected-by-type-checker"
		return
	}
	tuples := conformingStore(t, cfg)
	c := &Case{Cfg: cfg, Tuples: tuples, Conforming: true, Order: t.Choose(3), OrderSeed: uint64(t.Choose(1 << 30))}
	if t.Bool(1, 2) {
		c.PageSize = t.Range(1, 3)
	}
	// a query is needed by PrepCase; all declared (namespace, relation) pairs are queried below
	c.Query = Tuple{NS: cfg.NS[len(cfg.NS)-1].Name, Obj: "o0", Rel: "r0", Sub: Subject{ID: "u0"}}
	for _, n := range cfg.NS {
		if len(n.Rels) > 0 {
			c.Query.NS, c.Query.Rel = n.Name, n.Rels[0].Name
		}
	}
	rc.Rec.CaseHash = fmt.Sprintf("%016x", c.Hash())
	_, class, detail, err := env.PrepCase(c, Limits{Depth: []int{3, 5, 8}[t.Choose(3)], Width: 100})
	if err != nil {
		env.T.Fatalf("harness: %v", err)
	}
	if class != "" {
		rc.Violate(class, "config", detail, c.Describe(), -1, nil)
		return
	}
	hasSSTraverse := false
	for _, n := range cfg.NS {
		for _, r := range n.Rels {
			var walk func(e *Expr)
			walk = func(e *Expr) {
				if e == nil {
					return
				}
				if e.Kind == ExTraverse {
					for _, ty := range n.FindRel(e.Rel).Types {
						if ty.Rel != "" {
							hasSSTraverse = true
						}
					}
				}
				for _, ch := range e.Children {
					walk(ch)
				}
			}
			walk(r.Rewrite)
		}
	}
	if hasSSTraverse {
		rc.Count("probe_traverse_over_subjectset_type", 1)
	}
	rc.Rec.NonTrivial = cfg.HasRewrites() && len(tuples) > 0
	if cfg.Strict {
		rc.Count("strict_cases", 1)
	}
	subs := []Subject{{ID: "u0"}, {ID: "u1"}}
	for _, x := range tuples {
		if x.Sub.Set != nil {
			subs = append(subs, x.Sub)
			break
		}
	}
	e := 0
	costly := 0
	for _, n := range cfg.NS {
		for _, r := range n.Rels {
			for _, o := range []string{"o0", "o1", "o2"} {
				q := Tuple{NS: n.Name, Obj: o, Rel: r.Name, Sub: subs[t.Choose(len(subs))]}
				its, err := env.Internal(q)
				if err != nil {
					env.T.Fatalf("harness: %v", err)
				}
				nx := execsFor(rc.Tier, 1, 3)
				for k := 0; k < nx; k++ {
					e++
					if rc.SkipExec(e) {
						continue
					}
					et := rc.ExecTape(e)
					res := env.Exec(et, []*Request{{Kind: "check", Tuple: its[0]}}, NoFaults())
					rc.Rec.Execs++
					rc.AddSchedule(res.TraceHash)
					costly += res.Calls
					if costly > 30000 && !rc.Replay {
						// a program whose checks re-evaluate shared operands exponentially (thousands of
						// storage calls each, dozens of checks): finite, but not worth minutes of one
						// worker - and the stall watchdog would take the slow run for a hang. Whatever
						// was checked so far stands.
						rc.Count("cases_cut_short_too_expensive", 1)
						return
					}
					if !res.Returned || len(res.Outs) != 1 {
						continue // C15's business
					}
					o := res.Outs[0]
					rc.Note(fmt.Sprintf("%s -> %v", q, o))
					if o.Err != "" && isSchemaError(o.Err) {
						d := c.Describe()
						d["check"] = q.String()
						d["result"] = o
						d["schedule"] = res.Trace
						site := "schema-error"
						if hasSSTraverse {
							site = "traverse-over-subjectset-type"
						}
						rc.Violate("schema-error-at-check-time", site, fmt.Sprintf("the configuration was accepted by the type checker, the store conforms to it, but check %s failed with %q", q, o.Err), d, e, et)
						return
					}
					if o.Err != "" {
						rc.Count("other_errors", 1)
					}
				}
			}
		}
	}
	if rc.WantSample {
		rc.Rec.Sample = c.Describe()
	}
}

// converse half: replace one reference by an undeclared name => rejected, at that token
func runC11Reject(env *Env, rc *RunCtx) {
	t := rc.CaseTape
	cfg := genTyped(t)
	if _, perrs := schema.Parse(cfg.ToOPL()); len(perrs) > 0 {
		rc.Rec.Skipped = "rejected-by-type-checker"
		return
	}
	markRefs = true
	marked := cfg.ToOPL()
	markRefs = false
	type refSpan struct {
		kind, name string
		start, end int // in the marked text
	}
	var refs []refSpan
	for i := 0; i < len(marked); i++ {
		if marked[i] == 1 {
			j := strings.IndexByte(marked[i:], 3) + i
			k := strings.IndexByte(marked[i:], 2) + i
			refs = append(refs, refSpan{kind: marked[i+1 : j], name: marked[j+1 : k], start: i, end: k + 1})
			i = k
		}
	}
	if len(refs) == 0 {
		rc.Rec.Skipped = "no-references"
		return
	}
	pickI := t.Choose(len(refs))
	// build the mutated program and find the token's position in it
	var b strings.Builder
	line, col := 1, 0
	tokLine, tokCol, tokLen := 0, 0, 0
	bad := "undeclared_" + fmt.Sprint(t.Choose(1000))
	pos := 0
	for ri, r := range refs {
		b.WriteString(marked[pos:r.start])
		name := r.name
		if ri == pickI {
			name = bad
			txt := b.String()
			line = 1 + strings.Count(txt, "\n")
			col = len(txt) - (strings.LastIndex(txt, "\n") + 1)
			tokLine, tokCol, tokLen = line, col, len(name)
		}
		b.WriteString(name)
		pos = r.end
	}
	b.WriteString(marked[pos:])
	prog := b.String()
	rc.Rec.Execs++
	rc.Rec.NonTrivial = true
	rc.Rec.CaseHash = fmt.Sprintf("%016x", fnv64(prog, 0))
	rc.Count("mutated_"+refs[pickI].kind, 1)
	_, perrs := schema.Parse(prog)
	w := map[string]any{"program": prog, "replaced": map[string]any{"kind": refs[pickI].kind, "was": refs[pickI].name, "now": bad, "line": tokLine, "col": tokCol}}
	if len(perrs) == 0 {
		rc.Violate("undeclared-reference-accepted", refs[pickI].kind, fmt.Sprintf("replacing the %s reference %q by the undeclared name %q is accepted without errors", refs[pickI].kind, refs[pickI].name, bad), w, -1, nil)
		return
	}
	near := false
	var where []string
	for _, pe := range perrs {
		a := pe.ToAPI()
		where = append(where, fmt.Sprintf("%d:%d-%d:%d %s", a.Start.Line, a.Start.Col, a.End.Line, a.End.Col, a.Message))
		if a.Start.Line <= tokLine && tokLine <= a.End.Line {
			if refs[pickI].kind == "traverse-computed" {
				near = true // reported at the traverse relation of the same expression
			} else if a.Start.Col <= tokCol+tokLen+2 && a.End.Col >= tokCol-2 {
				near = true
			}
		}
	}
	w["errors"] = where
	if !near {
		rc.Violate("error-not-at-token", refs[pickI].kind, fmt.Sprintf("the undeclared %s reference at %d:%d is rejected, but no error points at it", refs[pickI].kind, tokLine, tokCol), w, -1, nil)
		return
	}
	if rc.WantSample {
		rc.Rec.Sample = w
	}
}

// mode "mutants": the quantifier of the property is over EVERY program the
// parser accepts, not only over the well-formed ones. Token-level mutations of
// a typed program (deletions, duplications, swaps, insertions of operators and
// brackets) that keto's parser still accepts without errors are installed and
// every declared (namespace, relation) is checked on a store that conforms to
// the PARSED types. Oracle: no schema error - and no panic (a panic while the
// check is being constructed kills the worker; the driver reports and confirms
// that as a process exit).
func runC11Mutants(env *Env, rc *RunCtx) {
	t := rc.CaseTape
	cfg := genTyped(t)
	// declaration-level mutation: one class is declared a second time, with one of
	// its relations missing from one of the two declarations
	if t.Bool(1, 5) {
		var cands []int
		for i, n := range cfg.NS {
			plain := 0
			for _, r := range n.Rels {
				if r.Rewrite == nil {
					plain++
				}
			}
			if plain > 0 {
				cands = append(cands, i)
			}
		}
		if len(cands) > 0 {
			i := cands[t.Choose(len(cands))]
			orig := cfg.NS[i]
			var plainIdx []int
			for j, r := range orig.Rels {
				if r.Rewrite == nil {
					plainIdx = append(plainIdx, j)
				}
			}
			drop := plainIdx[t.Choose(len(plainIdx))]
			cp := &NSDef{Name: orig.Name}
			for j, r := range orig.Rels {
				if j != drop {
					cp.Rels = append(cp.Rels, r)
				}
			}
			if t.Bool(1, 2) {
				cfg.NS = append(cfg.NS, cp) // the reduced declaration comes last
			} else {
				cfg.NS = append(append(append([]*NSDef{}, cfg.NS[:i]...), cp), cfg.NS[i:]...) // ... or first
			}
			rc.Count("mutated_class-declared-twice", 1)
		}
	}
	src := cfg.ToOPL()
	toks := oplTokens(src)
	// expression-level mutations: a whole leaf "this . ... ( ... )" is replaced by,
	// or followed by, a degenerate expression
	if t.Bool(1, 2) {
		var starts []int
		for i, tk := range toks {
			if tk == "this" {
				starts = append(starts, i)
			}
		}
		if len(starts) > 0 {
			st := starts[t.Choose(len(starts))]
			// the leaf ends at the parenthesis that closes its last call
			end, depth, seen := st, 0, false
			for j := st; j < len(toks); j++ {
				if toks[j] == "(" {
					depth++
					seen = true
				}
				if toks[j] == ")" {
					depth--
					if seen && depth == 0 {
						end = j
						// a traverse has exactly one call; includes / permits too
						break
					}
				}
			}
			junk := []string{"()", "!()", "(())", "!(())", "!!()", "( ( ) )", "!( !() )"}[t.Choose(7)]
			switch t.Choose(3) {
			case 0:
				toks = append(toks[:st], append([]string{junk}, toks[end+1:]...)...)
			case 1:
				toks = append(toks[:end+1], append([]string{[]string{"||", "&&"}[t.Choose(2)], junk}, toks[end+1:]...)...)
			default:
				toks = append(toks[:st], append([]string{junk, []string{"||", "&&"}[t.Choose(2)]}, toks[st:]...)...)
			}
		}
	}
	nm := t.Range(0, 2)
	for i := 0; i < nm && len(toks) > 3; i++ {
		p := t.Choose(len(toks))
		switch t.Choose(7) {
		case 0:
			toks = append(toks[:p], toks[p+1:]...)
		case 1:
			toks = append(toks[:p], append([]string{toks[p]}, toks[p:]...)...)
		case 2:
			q := t.Choose(len(toks))
			toks[p], toks[q] = toks[q], toks[p]
		default:
			ins := []string{"()", "!", "(", ")", "!()", "&&", "||", "!(", "( )", "[]", ",", ";", "{}", "this", "ctx"}[t.Choose(15)]
			toks = append(toks[:p], append([]string{ins}, toks[p:]...)...)
		}
	}
	prog := strings.Join(toks, " ")
	nn, perrs := schema.Parse(prog)
	rc.Rec.Execs++
	if len(perrs) > 0 {
		rc.Rec.Skipped = "mutant-rejected"
		return
	}
	if len(nn) == 0 {
		rc.Rec.Skipped = "mutant-empty"
		return
	}
	rc.Count("mutants_accepted", 1)
	rc.Rec.CaseHash = fmt.Sprintf("%016x", fnv64(prog, 0))
	// install the text as it is
	env.Wipe()
	env.cfgKey = ""
	c := env.Reg.Config(env.Ctx)
	strict := t.Bool(1, 2)
	if err := c.Set(config.KeyNamespaces, map[string]any{
		"location":                 "base64://" + base64.StdEncoding.EncodeToString([]byte(prog)),
		"experimental_strict_mode": strict,
	}); err != nil {
		rc.Rec.Skipped = "config-set-failed"
		return
	}
	nm2, err := c.NamespaceManager()
	if err != nil {
		rc.Rec.Skipped = "manager-failed"
		return
	}
	served, _ := nm2.Namespaces(env.Ctx)
	{
		// every declared name is served (a name declared twice is served once)
		sn := map[string]bool{}
		for _, n := range served {
			sn[n.Name] = true
		}
		pn := map[string]bool{}
		for _, n := range nn {
			pn[n.Name] = true
		}
		if len(sn) != len(pn) {
			rc.Rec.Skipped = "not-served"
			return
		}
		for k := range pn {
			if !sn[k] {
				rc.Rec.Skipped = "not-served"
				return
			}
		}
		if len(served) != len(nn) {
			rc.Count("accepted_with_a_name_declared_twice", 1)
		}
	}
	env.SetLimitsCached(Limits{Depth: 5, Width: 100})
	// a store that conforms to the parsed types
	var tuples []Tuple
	known := map[string]bool{}
	for _, n := range nn {
		known[n.Name] = true
	}
	for _, n := range nn {
		for _, r := range n.Relations {
			for _, ty := range r.Types {
				if !known[ty.Namespace] {
					continue
				}
				for k := 0; k < 2; k++ {
					tuples = append(tuples, Tuple{NS: n.Name, Obj: fmt.Sprintf("o%d", k), Rel: r.Name, Sub: Subject{Set: &SetRef{NS: ty.Namespace, Obj: fmt.Sprintf("o%d", t.Choose(2)), Rel: ty.Relation}}})
				}
				if ty.Relation == "" {
					tuples = append(tuples, Tuple{NS: n.Name, Obj: "o0", Rel: r.Name, Sub: Subject{ID: "u0"}})
				}
			}
		}
	}
	if len(tuples) > 0 {
		if err := env.Load(tuples); err != nil {
			rc.Rec.Skipped = "load-failed"
			return
		}
	}
	rc.Rec.NonTrivial = true
	e := 0
	for _, n := range nn {
		for _, r := range n.Relations {
			for _, o := range []string{"o0", "o1"} {
				q := Tuple{NS: n.Name, Obj: o, Rel: r.Name, Sub: Subject{ID: "u0"}}
				its, err := env.Internal(q)
				if err != nil {
					continue
				}
				e++
				if rc.SkipExec(e) {
					continue
				}
				et := rc.ExecTape(e)
				plan := NoFaults()
				plan.MaxSteps = 3000
				res := env.Exec(et, []*Request{{Kind: "check", Tuple: its[0]}}, plan)
				rc.Rec.Execs++
				if !res.Returned || len(res.Outs) != 1 {
					continue
				}
				if o := res.Outs[0]; o.Err != "" && isSchemaError(o.Err) {
					rc.Violate("schema-error-at-check-time", "accepted-mutant", fmt.Sprintf("the parser accepted the document without errors, the store conforms to the parsed types, but check %s failed with %q", q, o.Err),
						map[string]any{"program": prog, "check": q.String(), "result": o, "strict": strict}, e, et)
					return
				}
			}
		}
	}
	if rc.WantSample {
		rc.Rec.Sample = map[string]any{"accepted_mutant": prog, "strict": strict}
	}
}

// oplTokens splits OPL text into coarse tokens (identifiers, string literals,
// two-character operators, single characters).
func oplTokens(s string) []string {
	var out []string
	i := 0
	isId := func(c byte) bool {
		return c == '_' || (c >= 'a' && c <= 'z') || (c >= 'A' && c <= 'Z') || (c >= '0' && c <= '9')
	}
	for i < len(s) {
		c := s[i]
		switch {
		case c == ' ' || c == '\n' || c == '\t':
			i++
		case isId(c):
			j := i
			for j < len(s) && isId(s[j]) {
				j++
			}
			out = append(out, s[i:j])
			i = j
		case c == '"':
			j := i + 1
			for j < len(s) && s[j] != '"' {
				j++
			}
			if j < len(s) {
				j++
			}
			out = append(out, s[i:j])
			i = j
		case i+1 < len(s) && (s[i:i+2] == "&&" || s[i:i+2] == "||" || s[i:i+2] == "=>"):
			out = append(out, s[i:i+2])
			i += 2
		default:
			out = append(out, string(c))
			i++
		}
	}
	return out
}
