package sim

import (
	"bufio"
	"encoding/json"
	"fmt"
	"os"
	"runtime"
	"runtime/debug"
	"strconv"
	"testing"
	"time"
)

func envInt(k string, def int) int {
	if v := os.Getenv(k); v != "" {
		n, err := strconv.ParseInt(v, 0, 64)
		if err == nil {
			return int(n)
		}
	}
	return def
}

func envU64(k string, def uint64) uint64 {
	if v := os.Getenv(k); v != "" {
		n, err := strconv.ParseUint(v, 0, 64)
		if err == nil {
			return n
		}
	}
	return def
}

// TestWorker is the worker process entry point. It runs the runs
// [VERIF_FROM, VERIF_TO) of property VERIF_PROP and writes one JSON record per
// run to VERIF_OUT. A journal line "BEGIN n" is written (and flushed) before
// each run so that a dying worker identifies the run that killed it.
func TestWorker(t *testing.T) {
	prop := os.Getenv("VERIF_PROP")
	if prop == "" {
		t.Skip("VERIF_PROP not set")
	}
	f, ok := Props[prop]
	if !ok {
		t.Fatalf("unknown property %q", prop)
	}
	seed := envU64("VERIF_SEED", 1)
	from, to := envInt("VERIF_FROM", 0), envInt("VERIF_TO", 1)
	tier := os.Getenv("VERIF_TIER")
	if tier == "" {
		tier = "quick"
	}
	mode := os.Getenv("VERIF_MODE")
	sampleEvery := envInt("VERIF_SAMPLE_EVERY", 50)
	out := os.Stdout
	if p := os.Getenv("VERIF_OUT"); p != "" {
		fh, err := os.OpenFile(p, os.O_CREATE|os.O_WRONLY|os.O_APPEND, 0o644)
		if err != nil {
			t.Fatal(err)
		}
		defer fh.Close()
		out = fh
	}
	w := bufio.NewWriter(out)
	defer w.Flush()

	var replay *ReplayFile
	if p := os.Getenv("VERIF_REPLAY"); p != "" {
		r, err := ReadReplay(p)
		if err != nil {
			t.Fatal(err)
		}
		replay = r
		seed, from, to = r.Seed, r.Run, r.Run+1
		if r.Mode != "" {
			mode = r.Mode
		}
		if r.Tier != "" {
			tier = r.Tier
		}
	}

	env := NewEnvFor(t, prop, mode)
	// no GC inside a run (it perturbs goroutine order) unless memory gets tight
	debug.SetGCPercent(-1)
	debug.SetMemoryLimit(2 << 30)
	for i := from; i < to; i++ {
		fmt.Fprintf(w, "{\"begin\":%d}\n", i)
		w.Flush()
		rs := MixStr(Mix(seed, uint64(i)), prop+"/"+mode)
		rc := &RunCtx{Property: prop, Mode: mode, Tier: tier, Seed: seed, Run: i, OnlyExec: -1,
			Rec: &RunRecord{Run: i, Seed: seed}, WantSample: sampleEvery > 0 && i%sampleEvery == 0, T: t}
		rc.CaseTape = NewTape(rs)
		if replay != nil && len(replay.CaseTape) > 0 {
			rc.Replay = true
			rc.CaseTape = ReplayTape(replay.CaseTape)
			rc.ReplayExec = replay.ExecTape
			rc.OnlyExec = replay.ExecIndex
			rc.WantSample = true
		}
		// a replay file without tapes (process-exit / process-stuck) re-generates
		// the run from (seed, run, mode)
		rc.execSeed = uint64(rc.CaseTape.Choose(1 << 30)) // first draw: seed of the per-execution tapes
		env.NewNetwork(Mix(rs, 4242))
		// the time zone of the process is an input like any other: a function of
		// (seed, run), so that replays see the same one
		setRunZone(Mix(seed, uint64(i), 0x7a))
		f(env, rc)
		rc.finish()
		b, err := json.Marshal(rc.Rec)
		if err != nil {
			t.Fatal(err)
		}
		w.Write(b)
		w.WriteByte('\n')
		w.Flush()
		if i%8 == 7 {
			runtime.GC()
		}
	}
}

// TestMinimise shrinks the replay file VERIF_REPLAY into VERIF_MIN_OUT.
func TestMinimise(t *testing.T) {
	in, outp := os.Getenv("VERIF_REPLAY"), os.Getenv("VERIF_MIN_OUT")
	if in == "" || outp == "" {
		t.Skip("VERIF_REPLAY / VERIF_MIN_OUT not set")
	}
	r, err := ReadReplay(in)
	if err != nil {
		t.Fatal(err)
	}
	f, ok := Props[r.Property]
	if !ok {
		t.Fatalf("unknown property %q", r.Property)
	}
	env := NewEnvFor(t, r.Property, r.Mode)
	debug.SetGCPercent(400)
	m, tries := Minimise(env, f, r, time.Duration(envInt("VERIF_MIN_BUDGET_S", 20))*time.Second)
	if m == nil {
		fmt.Printf("MINIMISE not-reproduced tries=%d\n", tries)
		return
	}
	m.Note = fmt.Sprintf("minimised in %d re-executions: case tape %d -> %d ints, exec tape %d -> %d ints", tries, len(r.CaseTape), len(m.CaseTape), len(r.ExecTape), len(m.ExecTape))
	b, _ := json.MarshalIndent(m, "", " ")
	if err := os.WriteFile(outp, b, 0o644); err != nil {
		t.Fatal(err)
	}
	fmt.Printf("MINIMISE ok tries=%d\n", tries)
}

var runZones = []string{"UTC", "UTC", "Europe/Berlin", "Asia/Tokyo", "America/Los_Angeles", "Asia/Kolkata", "Pacific/Chatham"}

// setRunZone makes time.Local one of a few zones east and west of UTC (whole,
// half and three-quarter hour offsets). Rows are stamped with time.Now() and the
// SQLite driver stores a time in the zone of the value.
func setRunZone(h uint64) {
	name := runZones[h%uint64(len(runZones))]
	if loc, err := time.LoadLocation(name); err == nil {
		time.Local = loc
	}
}
