package sim

import (
	"context"
	"fmt"
	"regexp"
	"runtime"
	"strings"
	"sync/atomic"
	"testing"
	"testing/synctest"
	"time"

	"github.com/ory/keto/internal/check/checkgroup"
	"github.com/ory/keto/internal/relationtuple"
	"github.com/ory/keto/ketoapi"
	"github.com/ory/keto/verifsim/simlock"
)

type ExecPlan struct {
	FaultAt     map[int]FaultKind
	CancelAfter int // -1 never; 0 before start; j>0 after the j-th released storage call
	MaxSteps    int
	WantStacks  bool
	Depth       int     // request max-depth
	L2At        int     // fail the k-th SQL statement of the execution (0: none)
	L2Kind      L2Fault // with this fault
	CountSQL    bool    // count SQL statements at the L2 seam
	Late        bool    // overtaken storage calls may complete late (stragglers)
	StartAfter  []int   // request i starts once this many storage calls have been released (default 0)
	Sticky      int     // scheduler bursts (see Sched.Sticky)
	ParkSQL     bool    // every SQL statement (L2 seam) is a scheduling point too: requests interleave between the statements of one storage call
	// simulated time: every released storage call takes Latency on the bubble's fake
	// clock, and the context of request 0 carries a deadline Deadline after its start
	Latency  time.Duration
	Deadline time.Duration
}

func NoFaults() ExecPlan { return ExecPlan{CancelAfter: -1, MaxSteps: 20000} }

// WithStragglers: overtaken storage calls may complete late (tape-chosen).
func WithStragglers() ExecPlan { p := NoFaults(); p.Late = true; return p }

type CheckOut struct {
	Membership string `json:"membership"`
	Err        string `json:"err,omitempty"`
}

func outOf(r checkgroup.Result) CheckOut {
	o := CheckOut{Membership: r.Membership.String()}
	if r.Err != nil {
		o.Err = r.Err.Error()
		if len(o.Err) > 200 {
			o.Err = o.Err[:200]
		}
	}
	return o
}

func (o CheckOut) Allowed() bool { return o.Membership == "IsMember" }

type ExecResult struct {
	Returned      bool
	Outs          []CheckOut // one per request
	BatchErr      string
	Outcome       DriveOutcome
	Calls         int // storage calls released before the request returned
	Drained       int // parked calls that had to be released after return + cancel
	Leaked        bool
	LeakFrames    []string
	BubblePanic   string
	Trace         []string
	TraceHash     uint64
	FakeElapsed   time.Duration
	MaxParked     int
	ParkedSets    int
	Ties          int
	Zombies       int
	Late          int
	FaultsFired   map[string]int
	OpCount       map[string]int
	CancelledAt   int  // number of released calls when the cancel was delivered (-1: none)
	PromptReturn  bool // after a cancel, the request returned without any further storage release
	ReleasedAfter int  // storage calls released between cancel and return
	L2Fired       int
	L2Statements  int
}

// request kinds that can run inside a bubble
type Request struct {
	Kind   string // "check", "batch", "expand", "list"
	Tuple  *relationtuple.RelationTuple
	Batch  []*ketoapi.RelationTuple
	Subj   relationtuple.Subject
	Query  *relationtuple.RelationQuery
	Depth  int
	Fn     func(ctx context.Context) any // Kind "fn"
	result any
}

type ExpandOut struct {
	Tree *relationtuple.Tree
	Err  string
}

type ListOut struct {
	N   int
	Err string
	Sig string
}

// Exec runs the requests concurrently inside one synctest bubble under the
// scheduler. Request i is tagged with id i in its context (requests of one
// execution are scheduled per (request, key) class).
func (e *Env) Exec(tape *Tape, reqs []*Request, plan ExecPlan) *ExecResult {
	s := NewSched(tape)
	for k, v := range plan.FaultAt {
		s.FaultAt[k] = v
	}
	s.CancelAfter = plan.CancelAfter
	s.Sticky = plan.Sticky
	s.Latency = plan.Latency
	s.LateCompletions = plan.Late
	if plan.MaxSteps == 0 {
		plan.MaxSteps = 20000
	}
	res := &ExecResult{CancelledAt: -1}
	e.L1.cur.Store(s)
	defer e.L1.cur.Store(nil)
	t := e.T.(*testing.T)
	func() {
		defer func() {
			if r := recover(); r != nil {
				res.BubblePanic = fmt.Sprint(r)
			}
		}()
		synctest.Test(t, func(t *testing.T) {
			var doneN atomic.Int64
			start := time.Now()
			launch := make([]func(), len(reqs))
			for i, rq := range reqs {
				ctx, cancel := context.WithCancel(withReq(context.Background(), i))
				if plan.Deadline > 0 && i == 0 {
					cancel()
					ctx, cancel = context.WithTimeout(withReq(context.Background(), i), plan.Deadline)
				}
				s.Cancels = append(s.Cancels, cancel)
				if plan.CancelAfter == 0 && i == 0 {
					cancel()
					s.CancelAfter = -1
					s.CancelledAt = 0
					s.Trace = append(s.Trace, "CANCEL")
				}
				rq := rq
				launch[i] = func() {
					switch rq.Kind {
					case "check":
						rq.result = outOf(e.Deps.ce.CheckRelationTuple(ctx, rq.Tuple, rq.Depth))
					case "batch":
						rs, err := e.Deps.ce.BatchCheck(ctx, rq.Batch, rq.Depth)
						if err != nil {
							rq.result = err
						} else {
							outs := make([]CheckOut, len(rs))
							for i, r := range rs {
								outs[i] = outOf(r)
							}
							rq.result = outs
						}
					case "expand":
						tr, err := e.Deps.ee.BuildTree(ctx, rq.Subj, rq.Depth)
						o := ExpandOut{Tree: tr}
						if err != nil {
							o.Err = err.Error()
						}
						rq.result = o
					case "fn":
						rq.result = rq.Fn(ctx)
					case "list":
						ts, _, err := e.Deps.mgr.GetRelationTuples(ctx, rq.Query)
						o := ListOut{N: len(ts)}
						if err != nil {
							o.Err = err.Error()
						}
						var sig []string
						for _, t := range ts {
							sig = append(sig, e.L1.tup(t))
						}
						o.Sig = strings.Join(sig, ";")
						rq.result = o
					}
					doneN.Add(1)
				}
			}
			started := make([]bool, len(reqs))
			startDue := func() {
				for i := range reqs {
					after := 0
					if i < len(plan.StartAfter) {
						after = plan.StartAfter[i]
					}
					if !started[i] && s.Released >= after {
						started[i] = true
						go launch[i]()
					}
				}
			}
			s.OnQuantum = startDue
			startDue()
			done := func() bool {
				for i := range started {
					if !started[i] {
						// nothing left to release before this request's start: start it now
						if s.NumParked() == 0 {
							started[i] = true
							go launch[i]()
						}
						return false
					}
				}
				return int(doneN.Load()) == len(reqs)
			}
			if plan.ParkSQL {
				// pop holds one mutex per SQLite database around every statement: it is
				// acquired under the scheduler (TryLock), so that a request parked at a
				// statement does not leave the others blocked inside a sync.Mutex
				s.LockSites = "dialect_sqlite"
				simlock.Install(&simlock.Hooks{Acquire: s.AcquireLock, Released: s.LockReleased})
				defer simlock.Install(nil)
				theHub.mu.Lock()
				theHub.hook = func(ctx context.Context, rec *StmtRec) error {
					err, _ := s.Enter(ctx, "sql", fmt.Sprintf("sql %s %s", rec.Kind, rec.Table))
					return err
				}
				theHub.mu.Unlock()
				defer func() {
					theHub.mu.Lock()
					theHub.hook = nil
					theHub.mu.Unlock()
				}()
			}
			if plan.L2At > 0 {
				theHub.Arm(plan.L2At, plan.L2Kind)
				defer func() {
					log, fired := theHub.Disarm()
					res.L2Fired = fired
					res.L2Statements = len(log)
				}()
			} else if plan.L2Kind == L2None && plan.CountSQL {
				theHub.Arm(0, L2None)
				defer func() {
					log, _ := theHub.Disarm()
					res.L2Statements = len(log)
				}()
			}
			res.Outcome = s.Drive(done, plan.MaxSteps)
			res.CancelledAt = s.CancelledAt
			res.Returned = done()
			res.Calls = s.Released
			res.FakeElapsed = time.Since(start)
			if res.CancelledAt >= 0 {
				res.ReleasedAfter = s.Released - res.CancelledAt
				res.PromptReturn = res.Returned && res.ReleasedAfter == 0
			}
			for _, c := range s.Cancels {
				c()
			}
			res.Drained = s.Drain(10000)
			synctest.Wait()
			if plan.WantStacks {
				res.LeakFrames = bubbleLeaks()
			}
		})
	}()
	if strings.Contains(res.BubblePanic, "blocked goroutines remain") || strings.Contains(res.BubblePanic, "deadlock") {
		res.Leaked = true
	}
	for _, rq := range reqs {
		switch v := rq.result.(type) {
		case CheckOut:
			res.Outs = append(res.Outs, v)
		case []CheckOut:
			res.Outs = append(res.Outs, v...)
		case error:
			res.BatchErr = v.Error()
		}
	}
	res.Trace = s.Trace
	res.TraceHash = s.TraceHash()
	res.MaxParked = s.MaxParked
	res.ParkedSets = len(s.ParkedSets)
	res.Ties = s.Ties
	res.Zombies = s.Zombies
	res.Late = s.Late
	res.FaultsFired = s.FaultsFired
	res.OpCount = s.OpCount
	return res
}

var goroutineHdr = regexp.MustCompile(`^goroutine (\d+) \[([^\]]*)\]:`)
var bubbleTag = regexp.MustCompile(`synctest bubble (\d+)`)

// bubbleLeaks returns, for every goroutine of the current bubble other than the
// caller, the first frame inside keto (or the top frame), i.e. where a leaked
// goroutine is blocked. Must be called after synctest.Wait().
func bubbleLeaks() []string {
	buf := make([]byte, 1<<20)
	for {
		n := runtime.Stack(buf, true)
		if n < len(buf) {
			buf = buf[:n]
			break
		}
		buf = make([]byte, 2*len(buf))
	}
	blocks := strings.Split(string(buf), "\n\n")
	if len(blocks) == 0 {
		return nil
	}
	my := ""
	if m := bubbleTag.FindStringSubmatch(strings.SplitN(blocks[0], "\n", 2)[0]); m != nil {
		my = m[1]
	}
	var out []string
	for _, b := range blocks[1:] {
		lines := strings.Split(b, "\n")
		m := bubbleTag.FindStringSubmatch(lines[0])
		if m == nil || m[1] != my {
			continue
		}
		state := ""
		if h := goroutineHdr.FindStringSubmatch(lines[0]); h != nil {
			state = h[2]
		}
		frame := ""
		for i := 1; i+1 < len(lines); i += 2 {
			fn := lines[i]
			if strings.Contains(fn, "github.com/ory/keto/internal") {
				loc := strings.TrimSpace(lines[i+1])
				if j := strings.LastIndex(loc, " +"); j > 0 {
					loc = loc[:j]
				}
				loc = strings.TrimPrefix(loc, "/repo/")
				if k := strings.Index(fn, "("); k > 0 {
					// keep the function name, drop arguments
					if kk := strings.LastIndex(fn, "("); kk > 0 {
						fn = fn[:kk]
					}
				}
				fn = strings.TrimPrefix(fn, "github.com/ory/keto/internal/")
				frame = fn + " @ " + loc
				break
			}
		}
		if frame == "" {
			// no keto frame: synctest / testing infrastructure of the bubble itself
			continue
		}
		st := strings.SplitN(state, ",", 2)[0]
		out = append(out, st+" in "+frame)
	}
	return out
}
