package sim

import (
	"encoding/json"
	"fmt"
	"strings"
)

// C07 – pagination returns every matching relationship exactly once (tier S).

func init() { Props["C07"] = runC07 }

func tkey(t Tuple) string {
	b, _ := json.Marshal(t)
	return string(b)
}

func runC07(env *Env, rc *RunCtx) {
	t := rc.CaseTape
	sys := env.SysTier()
	env.Wipe()
	env.UseConfigCached(plainCfg, Limits{Depth: 100, Width: 1000})
	theGen.Reseed(uint64(t.Choose(1<<30)), t.Choose(3))
	dom := DefaultDomain
	dom.AllowBad = false

	if rc.Mode == "token" {
		runC07Tokens(env, rc, sys, dom)
		return
	}
	if rc.Mode == "traverse" {
		runC07Traverse(env, rc, sys)
		return
	}
	// the query and n matching rows
	ns, rel := pick(t, dom.NS), pick(t, dom.Rels)
	shape := t.Choose(4)
	q := Query{NS: &ns}
	if shape&1 != 0 {
		q.Rel = &rel
	}
	obj := pick(t, dom.Objs)
	if shape&2 != 0 {
		q.Obj = &obj
	}
	// one run in eight: the query names one relationship completely (namespace,
	// object, relation AND subject) and the store holds n copies of it - the
	// matching "set" is a multiset of equal rows
	var oneSub *Subject
	if t.Bool(1, 8) {
		q.Rel, q.Obj = &rel, &obj
		oneSub = &Subject{ID: pick(t, dom.Users)}
		if t.Bool(1, 3) {
			oneSub = &Subject{Set: &SetRef{NS: pick(t, dom.NS), Obj: "g0", Rel: pick(t, dom.Rels)}}
		}
		q.Sub = oneSub
		rc.Count("probe_fully_qualified_query_over_copies", 1)
	}
	sizes := []int{0, 1, 2, 3, 5, 7, 20, 99, 100, 101, 150, 199, 200, 201, 205}
	if rc.Tier == "quick" {
		sizes = []int{0, 1, 2, 3, 5, 7, 20, 99, 100, 101, 105}
	}
	n := sizes[t.Choose(len(sizes))]
	if t.Bool(1, 10) {
		n = []int{150, 205, 310}[t.Choose(3)] // a few hundred rows also in the quick tier
	}
	bigRun := t.Bool(1, 12)
	hugeRun := false
	if bigRun {
		// thousands of rows and page sizes in the thousands: boundaries an
		// implementation might clamp or batch at (none copied from the code)
		n = []int{999, 1000, 1001, 2001, 5003}[t.Choose(5)]
		rc.Count("probe_thousands_of_rows", 1)
		// now and then tens of thousands, with page sizes around the next round numbers
		if t.Bool(1, 6) {
			hugeRun = true
			n = []int{10001, 10500, 16500, 20003}[t.Choose(4)]
			rc.Count("probe_tens_of_thousands_of_rows", 1)
		}
	}
	mkMatching := func(i int) Tuple {
		x := Tuple{NS: ns, Obj: fmt.Sprintf("m%d", i), Rel: pick(t, dom.Rels), Sub: Subject{ID: pick(t, dom.Users)}}
		if q.Rel != nil {
			x.Rel = rel
		}
		if q.Obj != nil {
			x.Obj = obj
			x.Sub = Subject{ID: fmt.Sprintf("s%d", i)}
		}
		if t.Bool(1, 5) {
			x.Sub = Subject{Set: &SetRef{NS: pick(t, dom.NS), Obj: fmt.Sprintf("g%d", i%3), Rel: pick(t, dom.Rels)}}
		}
		if oneSub != nil {
			x.Sub = *oneSub
		}
		return x
	}
	mkOther := func(i int) Tuple {
		o := "N1"
		if ns == "N1" {
			o = "N0"
		}
		return Tuple{NS: o, Obj: fmt.Sprintf("x%d", i), Rel: pick(t, dom.Rels), Sub: Subject{ID: pick(t, dom.Users)}}
	}
	var ds []Delta
	cur := map[string]int{}
	byKey := map[string]Tuple{}
	for i := 0; i < n; i++ {
		x := mkMatching(i)
		if i > 0 && t.Bool(1, 12) {
			x = ds[t.Choose(len(ds))].T // duplicate content
		}
		ds = append(ds, Delta{Insert: true, T: x})
	}
	nOther := t.Range(0, 6)
	for i := 0; i < nOther; i++ {
		ds = append(ds, Delta{Insert: true, T: mkOther(i)})
	}
	for i := 0; i < len(ds); i += 2500 {
		j := i + 2500
		if j > len(ds) {
			j = len(ds)
		}
		if r := sys.Transact(ds[i:j]); !r.OK() {
			env.T.Fatalf("harness: setup transact failed: %s", r)
		}
	}
	for _, d := range ds {
		if q.Matches(d.T) {
			cur[tkey(d.T)]++
			byKey[tkey(d.T)] = d.T
		}
	}
	// page size relative to n
	cands := []int{0, 1, 2, n - 1, n, n + 1, 100, 101}
	if bigRun {
		cands = []int{0, 500, 1000, 1001, 5000, 5001, 7000, n - 1, n, n + 1}
	}
	if hugeRun {
		cands = []int{5000, 9999, 10000, 10001, 16384, 20000, 32768, 65536, 100000, n - 1, n, n + 1}
	}
	size := cands[t.Choose(len(cands))]
	if size < 0 {
		size = 1
	}
	eff := size
	if eff == 0 {
		eff = 100
	}
	if rc.Tier == "quick" && n > 50 && eff < 10 {
		size, eff = 25, 25 // keep quick runs short
	}
	grpcT := t.Bool(1, 2)
	interleave := rc.Mode == "writes"
	stable := map[string]int{}
	maxc := map[string]int{}
	for k, v := range cur {
		stable[k], maxc[k] = v, v
	}
	matchingWrite := false
	var hist []string
	got := map[string]int{}
	total := 0
	tok := ""
	pages := 0
	extraSerial := 0
	witness := func(extra map[string]any) map[string]any {
		w := map[string]any{"query": q.String(), "matching_rows_at_start": n, "page_size": size, "transport": map[bool]string{true: "grpc", false: "rest"}[grpcT], "pages": hist}
		for k, v := range extra {
			w[k] = v
		}
		return w
	}
	// one listing in six changes its page size from page to page (the size is a
	// parameter of each request, not of the listing)
	varySize := !bigRun && t.Bool(1, 6)
	if varySize {
		rc.Count("probe_page_size_changes_within_listing", 1)
		if n > 101 && t.Bool(1, 2) {
			// start above the default size, continue at or below it
			size = []int{101, 120, 150}[t.Choose(3)]
			eff = size
		}
	}
	for {
		var r Resp
		var p *Page
		if varySize && pages > 0 {
			size = []int{0, 1, 2, 3, 7, 50, 99, 100, 101, 150}[t.Choose(10)]
			eff = size
			if eff == 0 {
				eff = 100
			}
		}
		if grpcT {
			r, p = sys.ListGRPC(q, size, tok)
		} else {
			r, p = sys.ListREST(q, size, tok, true)
		}
		rc.Rec.Execs++
		if p == nil {
			rc.Violate("page-failed", "list", fmt.Sprintf("page %d with a token returned by the server failed: %s", pages, r), witness(nil), -1, nil)
			return
		}
		pages++
		hist = append(hist, fmt.Sprintf("page %d: %d items, next=%v", pages, len(p.Tuples), p.Next != ""))
		if len(hist) > 40 {
			hist = hist[len(hist)-40:]
		}
		if len(p.Tuples) > eff {
			rc.Violate("page-too-large", "list", fmt.Sprintf("page holds %d items, page_size %d (effective %d)", len(p.Tuples), size, eff), witness(nil), -1, nil)
			return
		}
		for _, x := range p.Tuples {
			if !q.Matches(x) {
				rc.Violate("foreign-row", "list", fmt.Sprintf("page contains %s which does not match %s", x, q), witness(nil), -1, nil)
				return
			}
			got[tkey(x)]++
			total++
		}
		if len(p.Tuples) == 0 && pages > 1 && !matchingWrite {
			rc.Violate("token-on-last-page", "list", "a page carried a next_page_token although no item followed it", witness(nil), -1, nil)
			return
		}
		if p.Next == "" {
			break
		}
		if pages > 5000 {
			rc.Violate("endless-pagination", "list", "more than 5000 pages", witness(nil), -1, nil)
			return
		}
		tok = p.Next
		if interleave && t.Bool(1, 2) {
			k := t.Range(1, 2)
			for j := 0; j < k; j++ {
				extraSerial++
				switch t.Choose(4) {
				case 0: // insert a matching row
					x := mkMatching(1000 + extraSerial)
					if sys.Create(x).OK() {
						maxc[tkey(x)]++
						matchingWrite = true
						rc.Count("interleaved_matching_insert", 1)
					}
				case 1: // insert a non-matching row
					sys.Create(mkOther(1000 + extraSerial))
					rc.Count("interleaved_other_write", 1)
				case 2: // delete a matching row (all rows of that content)
					if len(byKey) > 0 {
						ks := make([]string, 0, len(byKey))
						for k := range byKey {
							ks = append(ks, k)
						}
						sortStrings(ks)
						kk := ks[t.Choose(len(ks))]
						if sys.Patch([]Delta{{Insert: false, T: byKey[kk]}}).OK() {
							stable[kk] = 0
							matchingWrite = true
							rc.Count("interleaved_matching_delete", 1)
						}
					}
				default: // delete a non-matching row
					sys.Patch([]Delta{{Insert: false, T: mkOther(t.Choose(6))}})
					rc.Count("interleaved_other_write", 1)
				}
			}
		}
	}
	for k, s := range stable {
		if got[k] < s {
			rc.Violate("row-missing", "list", fmt.Sprintf("%s existed unchanged for the whole iteration %d time(s) but was returned %d time(s)", k, s, got[k]), witness(nil), -1, nil)
			return
		}
	}
	for k, g := range got {
		if g > maxc[k] {
			rc.Violate("row-duplicated", "list", fmt.Sprintf("%s was returned %d time(s) but existed at most %d time(s)", k, g, maxc[k]), witness(nil), -1, nil)
			return
		}
	}
	wantPages := (n + eff - 1) / eff
	if wantPages == 0 {
		wantPages = 1
	}
	if !matchingWrite && !varySize && pages != wantPages {
		rc.Violate("page-count", "list", fmt.Sprintf("%d matching rows with page size %d came in %d pages, expected %d (a token must be empty exactly on the last page)", n, eff, pages, wantPages), witness(nil), -1, nil)
		return
	}
	rc.Rec.CaseHash = fmt.Sprintf("%016x", fnv64(fmt.Sprintf("%s|%d|%d|%v|%v|%d", q, n, size, grpcT, interleave, extraSerial), 0))
	rc.Rec.NonTrivial = pages >= 2
	if n == eff || n == eff+1 || n == eff-1 {
		rc.Count("probe_boundary_size", 1)
	}
	if n >= 100 {
		rc.Count("probe_100_plus_rows", 1)
	}
	if size == 0 {
		rc.Count("probe_default_page_size", 1)
	}
	rc.Count("pages", pages)
	rc.Note(fmt.Sprintf("%s n=%d size=%d pages=%d total=%d", q, n, size, pages, total))
	if rc.WantSample {
		rc.Rec.Sample = witness(map[string]any{"pages_fetched": pages, "items": total})
	}
}

// malformed page tokens are client errors
func runC07Tokens(env *Env, rc *RunCtx, sys *Sys, dom Domain) {
	t := rc.CaseTape
	ns := pick(t, dom.NS)
	var ds []Delta
	for i := 0; i < 3; i++ {
		ds = append(ds, Delta{Insert: true, T: Tuple{NS: ns, Obj: fmt.Sprintf("m%d", i), Rel: "r0", Sub: Subject{ID: "u0"}}})
	}
	sys.Transact(ds)
	q := Query{NS: &ns}
	toks := []string{"x", "not-a-uuid", "123", "00000000-0000-0000-0000-00000000000", "zzzzzzzz-zzzz-zzzz-zzzz-zzzzzzzzzzzz", "0000000000000000000000000000000000000000000000000000000000000000", "%00", "' OR 1=1 --", "00000000-0000-0000-0000-000000000000x"}
	tok := toks[t.Choose(len(toks))]
	if t.Bool(1, 4) {
		b := make([]byte, t.Range(1, 300))
		for i := range b {
			b[i] = byte('a' + t.Choose(26))
		}
		tok = string(b)
	}
	grpcT := t.Bool(1, 2)
	// Tokens that look like tokens: derived from a token the server has just
	// issued, or drawn from the alphabets tokens are usually made of, with lengths
	// around the sizes of common encodings of a 16-byte id. Whether the server
	// takes such a token for one of its own is its business (a UUID without dashes
	// may well parse): it must answer with a page or with a client error, never
	// with a server error.
	lookalike := false
	if t.Bool(1, 2) {
		lookalike = true
		var first *Page
		if grpcT {
			_, first = sys.ListGRPC(q, 1, "")
		} else {
			_, first = sys.ListREST(q, 1, "", true)
		}
		real := ""
		if first != nil {
			real = first.Next
		}
		if real == "" {
			env.T.Fatalf("harness: no next page token for a listing of 3 rows with page size 1")
		}
		alpha := []string{"abcdefghijklmnopqrstuvwxyzABCDEFGHIJKLMNOPQRSTUVWXYZ0123456789_-", "0123456789abcdef", "ABCDEFGHIJKLMNOPQRSTUVWXYZabcdefghijklmnopqrstuvwxyz0123456789+/="}[t.Choose(3)]
		rnd := func(n int) string {
			b := make([]byte, n)
			for i := range b {
				b[i] = alpha[t.Choose(len(alpha))]
			}
			return string(b)
		}
		switch t.Choose(9) {
		case 0:
			tok = real + string(alpha[t.Choose(len(alpha))])
		case 1:
			tok = real + real
		case 2:
			tok = strings.ReplaceAll(real, "-", "")
		case 3:
			tok = real[:len(real)-1]
		case 4:
			tok = real + strings.Repeat("A", []int{1, 2, 10, 100, 4096}[t.Choose(5)])
		case 5:
			tok = strings.ToUpper(real)
		case 6:
			i := t.Choose(len(real))
			tok = real[:i] + string(alpha[t.Choose(len(alpha))]) + real[i+1:]
		case 7:
			tok = "{" + real + "}"
		default:
			tok = rnd([]int{1, 8, 15, 16, 17, 21, 22, 23, 24, 25, 31, 32, 33, 35, 36, 37, 38, 43, 44, 45, 64, 100, 4096}[t.Choose(23)])
		}
	}
	var r Resp
	if grpcT {
		r, _ = sys.ListGRPC(q, 1, tok)
	} else {
		r, _ = sys.ListREST(q, 1, tok, true)
	}
	rc.Rec.Execs++
	rc.Rec.CaseHash = fmt.Sprintf("%016x", fnv64(tok+fmt.Sprint(grpcT), 0))
	rc.Rec.NonTrivial = true
	tr := "rest"
	if grpcT {
		tr = "grpc"
	}
	rc.Count("malformed_tokens_"+tr, 1)
	w := map[string]any{"token": tok, "transport": tr, "response": r.String()}
	if lookalike {
		rc.Count("lookalike_tokens", 1)
		if r.OK() {
			rc.Count("lookalike_tokens_taken_for_real", 1)
		}
	}
	if r.OK() && !lookalike {
		rc.Violate("malformed-token-accepted", tr, fmt.Sprintf("page_token %q was accepted: %s", tok, r), w, -1, nil)
		return
	}
	if !r.OK() && !r.ClientError() {
		rc.Violate("malformed-token-not-client-error", tr, fmt.Sprintf("page_token %q answered %s (expected a 4xx / InvalidArgument-class answer)", tok, r), w, -1, nil)
		return
	}
	if rc.WantSample {
		rc.Rec.Sample = w
	}
}

// mode traverse: the internal consumers of paging. A node with N subject-set
// rows (N around 1000, 2000: boundaries a traversal might page at; none copied
// from the code), exactly one of which - at a chosen position in storage order
// - leads to the subject. The check must find it wherever it sits.
func runC07Traverse(env *Env, rc *RunCtx, sys *Sys) {
	t := rc.CaseTape
	env.SetLimitsCached(Limits{Depth: 10, Width: 65535})
	N := []int{99, 100, 101, 999, 1000, 1001, 1002, 1500, 1999, 2000, 2001, 2002, 3001}[t.Choose(13)]
	if rc.Tier == "quick" && N > 2002 {
		N = 1001
	}
	var pos int
	switch t.Choose(4) {
	case 0:
		pos = t.Choose(N)
	case 1:
		pos = N - 1 - t.Choose(3)
	default:
		// at and around a multiple of 100 / 1000
		base := []int{100, 1000, 2000}[t.Choose(3)]
		pos = base - 2 + t.Choose(5)
	}
	if pos < 0 || pos >= N {
		pos = N - 1
	}
	// storage order = insertion order (ascending or descending shard ids)
	order := []int{orderAsc, orderDesc}[t.Choose(2)]
	theGen.Reseed(uint64(t.Choose(1<<30)), order)
	var ds []Delta
	for i := 0; i < N; i++ {
		ds = append(ds, Delta{Insert: true, T: Tuple{NS: "N0", Obj: "wide", Rel: "r0", Sub: Subject{Set: &SetRef{NS: "N1", Obj: fmt.Sprintf("g%d", i), Rel: "m"}}}})
	}
	for i := 0; i < len(ds); i += 2500 {
		j := i + 2500
		if j > len(ds) {
			j = len(ds)
		}
		if r := sys.Transact(ds[i:j]); !r.OK() {
			env.T.Fatalf("harness: setup failed: %s", r)
		}
	}
	if r := sys.Create(Tuple{NS: "N1", Obj: fmt.Sprintf("g%d", pos), Rel: "m", Sub: Subject{ID: "alice"}}); !r.OK() {
		env.T.Fatalf("harness: setup failed: %s", r)
	}
	rc.Rec.Execs++
	rc.Rec.NonTrivial = true
	rc.Rec.CaseHash = fmt.Sprintf("%016x", fnv64(fmt.Sprintf("trav %d %d %d", N, pos, order), 0))
	w := map[string]any{"subject_sets_on_node": N, "member_group_position_in_insertion_order": pos, "storage_order": []string{"random", "asc", "desc"}[order]}
	_, a := sys.CheckREST("get-openapi", Tuple{NS: "N0", Obj: "wide", Rel: "r0", Sub: Subject{ID: "alice"}}, nil)
	if a == nil || !*a {
		rc.Violate("traversal-skipped-row", "check", fmt.Sprintf("N0:wide#r0 has %d subject sets; alice is a member of the one at position %d, but the check says not allowed", N, pos), w, -1, nil)
		return
	}
	_, b := sys.CheckREST("get-openapi", Tuple{NS: "N0", Obj: "wide", Rel: "r0", Sub: Subject{ID: "mallory"}}, nil)
	if b == nil || *b {
		rc.Violate("traversal-invented-row", "check", "a subject that is in none of the subject sets is allowed", w, -1, nil)
		return
	}
	// the listing of the node over REST with the default page size sees every row once
	ns, obj, rel := "N0", "wide", "r0"
	_, ts, pages := sys.ListAll(Query{NS: &ns, Obj: &obj, Rel: &rel}, 0, t.Bool(1, 2))
	if len(ts) != N || len(bag(ts)) != N {
		rc.Violate("row-missing", "list", fmt.Sprintf("listing the node returned %d items (%d distinct) in %d pages, expected %d", len(ts), len(bag(ts)), pages, N), w, -1, nil)
		return
	}
	rc.Count("probe_wide_node_over_1000", b2i(N > 1000))
	rc.Count("traverse_cases", 1)
	if rc.WantSample {
		rc.Rec.Sample = w
	}
}

func b2i(b bool) int {
	if b {
		return 1
	}
	return 0
}
