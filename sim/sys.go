package sim

import (
	"bytes"
	"context"
	"encoding/json"
	"fmt"
	"net"
	"net/http"
	"net/http/httptest"
	"net/url"
	"sort"
	"strings"

	"google.golang.org/grpc"
	"google.golang.org/grpc/codes"
	"google.golang.org/grpc/credentials/insecure"
	"google.golang.org/grpc/metadata"
	"google.golang.org/grpc/status"
	"google.golang.org/grpc/test/bufconn"

	"github.com/ory/keto/ketoapi"
	opl "github.com/ory/keto/proto/ory/keto/opl/v1alpha1"
	rts "github.com/ory/keto/proto/ory/keto/relation_tuples/v1alpha2"
)

// Sys is the system tier: the real REST routers (negroni chain, httprouter,
// handlers, herodot writer) driven through ServeHTTP on a recorder, and the real
// gRPC servers (real interceptor chain including panic recovery) over
// grpc/test/bufconn. No sockets.
type Sys struct {
	Env                 *Env
	ReadH, WriteH, OPLH http.Handler
	Check               rts.CheckServiceClient
	Expand              rts.ExpandServiceClient
	ReadC               rts.ReadServiceClient
	WriteC              rts.WriteServiceClient
	NSC                 rts.NamespacesServiceClient
	Syntax              opl.SyntaxServiceClient
	servers             []*grpc.Server
	Net                 string // tenant (network id) the next requests are issued for ("": the registry's own)
	conns               []*grpc.ClientConn
	reqCtx              context.Context // With(): the context REST requests are issued with (nil: Env.Ctx)
}

func NewSys(env *Env) *Sys {
	s := &Sys{Env: env}
	reg := env.Reg
	ctx := env.Ctx
	_ = reg.PrometheusManager()
	s.ReadH = reg.ReadRouter(ctx)
	s.WriteH = reg.WriteRouter(ctx)
	s.OPLH = reg.OPLSyntaxRouter(ctx)
	dial := func(srv *grpc.Server) *grpc.ClientConn {
		l := bufconn.Listen(1 << 20)
		go func() { _ = srv.Serve(l) }()
		cc, err := grpc.NewClient("passthrough:///bufnet",
			grpc.WithContextDialer(func(ctx context.Context, _ string) (net.Conn, error) { return l.DialContext(ctx) }),
			grpc.WithTransportCredentials(insecure.NewCredentials()),
			grpc.WithDefaultCallOptions(grpc.MaxCallRecvMsgSize(256<<20), grpc.MaxCallSendMsgSize(256<<20)))
		if err != nil {
			env.T.Fatalf("grpc client: %v", err)
		}
		s.servers = append(s.servers, srv)
		s.conns = append(s.conns, cc)
		return cc
	}
	rc := dial(reg.ReadGRPCServer(ctx))
	wc := dial(reg.WriteGRPCServer(ctx))
	oc := dial(reg.OplGRPCServer(ctx))
	s.Check = rts.NewCheckServiceClient(rc)
	s.Expand = rts.NewExpandServiceClient(rc)
	s.ReadC = rts.NewReadServiceClient(rc)
	s.NSC = rts.NewNamespacesServiceClient(rc)
	s.WriteC = rts.NewWriteServiceClient(wc)
	s.Syntax = opl.NewSyntaxServiceClient(oc)
	return s
}

// With returns a view of s whose REST requests carry ctx (a request of a
// scheduled execution: the context identifies it to the scheduler).
func (s *Sys) With(ctx context.Context) *Sys {
	c := *s
	c.reqCtx = ctx
	return &c
}

func (s *Sys) restCtx() context.Context {
	if s.reqCtx != nil {
		return s.reqCtx
	}
	return s.Env.Ctx
}

func (s *Sys) ctx() context.Context {
	if s.Net != "" {
		return metadata.AppendToOutgoingContext(s.Env.Ctx, netHeader, s.Net)
	}
	return s.Env.Ctx
}

func (s *Sys) Close() {
	for _, c := range s.conns {
		_ = c.Close()
	}
	for _, g := range s.servers {
		g.Stop()
	}
}

// Resp is a transport-independent view of an answer.
type Resp struct {
	Transport string // "rest" or "grpc"
	Status    int    // HTTP status (rest)
	Code      codes.Code
	Body      []byte
	Panic     string // a panic that escaped the REST handler chain
	Err       string
}

func (r Resp) OK() bool {
	if r.Panic != "" {
		return false
	}
	if r.Transport == "rest" {
		return r.Status >= 200 && r.Status < 300
	}
	return r.Code == codes.OK
}

// ClientError: the answer blames the request (4xx / InvalidArgument / NotFound ...).
func (r Resp) ClientError() bool {
	if r.Transport == "rest" {
		return r.Status >= 400 && r.Status < 500
	}
	switch r.Code {
	case codes.InvalidArgument, codes.NotFound, codes.FailedPrecondition, codes.OutOfRange, codes.AlreadyExists, codes.PermissionDenied, codes.Unauthenticated:
		return true
	}
	return false
}

// ServerError: 5xx / Internal / Unknown / a panic.
func (r Resp) ServerError() bool {
	if r.Panic != "" {
		return true
	}
	if r.Transport == "rest" {
		return r.Status >= 500
	}
	switch r.Code {
	case codes.Internal, codes.Unknown, codes.DataLoss, codes.Unavailable, codes.Unimplemented, codes.DeadlineExceeded, codes.Aborted, codes.ResourceExhausted, codes.Canceled:
		return true
	}
	return false
}

func (r Resp) String() string {
	if r.Panic != "" {
		return "PANIC " + r.Panic
	}
	if r.Transport == "rest" {
		b := string(r.Body)
		if len(b) > 160 {
			b = b[:160]
		}
		return fmt.Sprintf("HTTP %d %s", r.Status, strings.TrimSpace(b))
	}
	e := r.Err
	if len(e) > 160 {
		e = e[:160]
	}
	return fmt.Sprintf("gRPC %s %s", r.Code, e)
}

func (s *Sys) REST(h http.Handler, method, path string, q url.Values, body []byte) (resp Resp) {
	resp.Transport = "rest"
	u := path
	if q != nil {
		u += "?" + q.Encode()
	}
	return s.RESTRaw(h, method, u, body)
}

// RESTRaw takes the request target verbatim (hostile clients).
func (s *Sys) RESTRaw(h http.Handler, method, target string, body []byte) (resp Resp) {
	resp.Transport = "rest"
	var rd *bytes.Reader
	if body != nil {
		rd = bytes.NewReader(body)
	}
	var req *http.Request
	var err error
	if rd != nil {
		req, err = http.NewRequestWithContext(s.restCtx(), method, "http://keto.sim"+target, rd)
	} else {
		req, err = http.NewRequestWithContext(s.restCtx(), method, "http://keto.sim"+target, nil)
	}
	if err != nil {
		resp.Err = "request not constructible: " + err.Error()
		resp.Status = -1
		return
	}
	if body != nil {
		req.Header.Set("Content-Type", "application/json")
	} else {
		// net/http guarantees a non-nil Body for server requests
		req.Body = http.NoBody
	}
	req.RequestURI = target
	if s.Net != "" {
		req.Header.Set(netHeader, s.Net)
	}
	rec := httptest.NewRecorder()
	func() {
		defer func() {
			if p := recover(); p != nil {
				resp.Panic = fmt.Sprint(p)
			}
		}()
		h.ServeHTTP(rec, req)
	}()
	resp.Status = rec.Code
	resp.Body = rec.Body.Bytes()
	return
}

func grpcResp(err error) Resp {
	r := Resp{Transport: "grpc", Code: status.Code(err)}
	if err != nil {
		r.Err = err.Error()
	}
	return r
}

// ---------------------------------------------------------------------------
// conversions

func protoSubject(s Subject) *rts.Subject {
	if s.Nil {
		return nil
	}
	if s.Set != nil {
		return rts.NewSubjectSet(s.Set.NS, s.Set.Obj, s.Set.Rel)
	}
	return rts.NewSubjectID(s.ID)
}

func (t Tuple) Proto() *rts.RelationTuple {
	return &rts.RelationTuple{Namespace: t.NS, Object: t.Obj, Relation: t.Rel, Subject: protoSubject(t.Sub)}
}

func fromAPI(r *ketoapi.RelationTuple) Tuple {
	t := Tuple{NS: r.Namespace, Obj: r.Object, Rel: r.Relation}
	if r.SubjectSet != nil {
		t.Sub.Set = &SetRef{NS: r.SubjectSet.Namespace, Obj: r.SubjectSet.Object, Rel: r.SubjectSet.Relation}
	} else if r.SubjectID != nil {
		t.Sub.ID = *r.SubjectID
	}
	return t
}

func fromProto(r *rts.RelationTuple) Tuple {
	t := Tuple{NS: r.Namespace, Obj: r.Object, Rel: r.Relation}
	switch s := r.GetSubject().GetRef().(type) {
	case *rts.Subject_Id:
		t.Sub.ID = s.Id
	case *rts.Subject_Set:
		t.Sub.Set = &SetRef{NS: s.Set.Namespace, Obj: s.Set.Object, Rel: s.Set.Relation}
	}
	return t
}

// Query is an API-level relation query (any of the 2^4 shapes).
type Query struct {
	NS  *string  `json:"ns,omitempty"`
	Obj *string  `json:"obj,omitempty"`
	Rel *string  `json:"rel,omitempty"`
	Sub *Subject `json:"sub,omitempty"`
}

func (q Query) String() string {
	p := func(s *string) string {
		if s == nil {
			return "*"
		}
		return *s
	}
	sub := "*"
	if q.Sub != nil {
		sub = q.Sub.String()
	}
	return fmt.Sprintf("%s:%s#%s@%s", p(q.NS), p(q.Obj), p(q.Rel), sub)
}

func (q Query) Matches(t Tuple) bool {
	if q.NS != nil && *q.NS != t.NS {
		return false
	}
	if q.Obj != nil && *q.Obj != t.Obj {
		return false
	}
	if q.Rel != nil && *q.Rel != t.Rel {
		return false
	}
	if q.Sub != nil && !q.Sub.Equal(t.Sub) {
		return false
	}
	return true
}

func (q Query) URL() url.Values {
	v := url.Values{}
	if q.NS != nil {
		v.Set("namespace", *q.NS)
	}
	if q.Obj != nil {
		v.Set("object", *q.Obj)
	}
	if q.Rel != nil {
		v.Set("relation", *q.Rel)
	}
	if q.Sub != nil {
		if q.Sub.Set != nil {
			v.Set("subject_set.namespace", q.Sub.Set.NS)
			v.Set("subject_set.object", q.Sub.Set.Obj)
			v.Set("subject_set.relation", q.Sub.Set.Rel)
		} else {
			v.Set("subject_id", q.Sub.ID)
		}
	}
	return v
}

func (q Query) Proto() *rts.RelationQuery {
	r := &rts.RelationQuery{Namespace: q.NS, Object: q.Obj, Relation: q.Rel}
	if q.Sub != nil {
		r.Subject = protoSubject(*q.Sub)
	}
	return r
}

func tupleURL(t Tuple) url.Values {
	ns, o, r := t.NS, t.Obj, t.Rel
	return Query{NS: &ns, Obj: &o, Rel: &r, Sub: &t.Sub}.URL()
}

// ---------------------------------------------------------------------------
// R2 – per-network multiset store

type Model struct {
	T []Tuple
}

func (m *Model) Clone() *Model { return &Model{T: append([]Tuple(nil), m.T...)} }

func (m *Model) Insert(ts ...Tuple) { m.T = append(m.T, ts...) }

// Delete removes all tuples equal to any of ts.
func (m *Model) Delete(ts ...Tuple) {
	var out []Tuple
	for _, x := range m.T {
		del := false
		for _, d := range ts {
			if x.NS == d.NS && x.Obj == d.Obj && x.Rel == d.Rel && x.Sub.Equal(d.Sub) {
				del = true
				break
			}
		}
		if !del {
			out = append(out, x)
		}
	}
	m.T = out
}

func (m *Model) DeleteQuery(q Query) {
	var out []Tuple
	for _, x := range m.T {
		if !q.Matches(x) {
			out = append(out, x)
		}
	}
	m.T = out
}

func (m *Model) Match(q Query) []Tuple {
	var out []Tuple
	for _, x := range m.T {
		if q.Matches(x) {
			out = append(out, x)
		}
	}
	return out
}

// multiset comparison over exact strings
func bag(ts []Tuple) map[string]int {
	b := map[string]int{}
	for _, t := range ts {
		k, _ := json.Marshal(t)
		b[string(k)]++
	}
	return b
}

func bagDiff(got, want []Tuple) string {
	g, w := bag(got), bag(want)
	var d []string
	for k, n := range w {
		if g[k] != n {
			d = append(d, fmt.Sprintf("%s: got %d want %d", k, g[k], n))
		}
	}
	for k, n := range g {
		if _, ok := w[k]; !ok {
			d = append(d, fmt.Sprintf("%s: got %d want 0", k, n))
		}
	}
	sort.Strings(d)
	if len(d) > 6 {
		d = append(d[:6], fmt.Sprintf("... %d more", len(d)-6))
	}
	return strings.Join(d, "; ")
}

// ---------------------------------------------------------------------------
// API calls used by several properties

func (s *Sys) Create(t Tuple) Resp {
	b, _ := json.Marshal(t.API())
	return s.REST(s.WriteH, "PUT", "/admin/relation-tuples", nil, b)
}

type Delta struct {
	Insert bool  `json:"insert"`
	T      Tuple `json:"t"`
	// Act, when set, is the action word sent over REST instead of the canonical one
	Act string `json:"act,omitempty"`
	// AlsoSet, when set, is sent over REST as subject_set NEXT TO the subject_id of T
	// (JSON can say both; protobuf cannot)
	AlsoSet *SetRef `json:"also_set,omitempty"`
}

func (s *Sys) Patch(ds []Delta) Resp {
	var body []*ketoapi.PatchDelta
	for _, d := range ds {
		a := ketoapi.ActionDelete
		if d.Insert {
			a = ketoapi.ActionInsert
		}
		if d.Act != "" {
			a = ketoapi.PatchAction(d.Act)
		}
		rt := d.T.API()
		if d.AlsoSet != nil && rt.SubjectID != nil {
			rt.SubjectSet = &ketoapi.SubjectSet{Namespace: d.AlsoSet.NS, Object: d.AlsoSet.Obj, Relation: d.AlsoSet.Rel}
		}
		body = append(body, &ketoapi.PatchDelta{Action: a, RelationTuple: rt})
	}
	b, _ := json.Marshal(body)
	return s.REST(s.WriteH, "PATCH", "/admin/relation-tuples", nil, b)
}

func (s *Sys) Transact(ds []Delta) Resp {
	req := &rts.TransactRelationTuplesRequest{}
	for _, d := range ds {
		a := rts.RelationTupleDelta_ACTION_DELETE
		if d.Insert {
			a = rts.RelationTupleDelta_ACTION_INSERT
		}
		req.RelationTupleDeltas = append(req.RelationTupleDeltas, &rts.RelationTupleDelta{Action: a, RelationTuple: d.T.Proto()})
	}
	_, err := s.WriteC.TransactRelationTuples(s.ctx(), req)
	return grpcResp(err)
}

func (s *Sys) DeleteREST(q Query) Resp {
	return s.REST(s.WriteH, "DELETE", "/admin/relation-tuples", q.URL(), nil)
}

func (s *Sys) DeleteGRPC(q Query) Resp {
	_, err := s.WriteC.DeleteRelationTuples(s.ctx(), &rts.DeleteRelationTuplesRequest{RelationQuery: q.Proto()})
	return grpcResp(err)
}

type Page struct {
	Tuples []Tuple
	Next   string
}

func (s *Sys) ListREST(q Query, size int, token string, setSize bool) (Resp, *Page) {
	v := q.URL()
	if setSize {
		v.Set("page_size", fmt.Sprint(size))
	}
	if token != "" {
		v.Set("page_token", token)
	}
	r := s.REST(s.ReadH, "GET", "/relation-tuples", v, nil)
	if !r.OK() {
		return r, nil
	}
	var gr ketoapi.GetResponse
	if err := json.Unmarshal(r.Body, &gr); err != nil {
		r.Err = "bad body: " + err.Error()
		r.Status = -2
		return r, nil
	}
	p := &Page{Next: gr.NextPageToken}
	for _, t := range gr.RelationTuples {
		p.Tuples = append(p.Tuples, fromAPI(t))
	}
	return r, p
}

func (s *Sys) ListGRPC(q Query, size int, token string) (Resp, *Page) {
	res, err := s.ReadC.ListRelationTuples(s.ctx(), &rts.ListRelationTuplesRequest{RelationQuery: q.Proto(), PageSize: int32(size), PageToken: token})
	r := grpcResp(err)
	if err != nil {
		return r, nil
	}
	p := &Page{Next: res.NextPageToken}
	for _, t := range res.RelationTuples {
		p.Tuples = append(p.Tuples, fromProto(t))
	}
	return r, p
}

// ListAll follows next_page_token to the end.
func (s *Sys) ListAll(q Query, size int, grpcT bool) (Resp, []Tuple, int) {
	var all []Tuple
	tok := ""
	pages := 0
	for {
		var r Resp
		var p *Page
		if grpcT {
			r, p = s.ListGRPC(q, size, tok)
		} else {
			r, p = s.ListREST(q, size, tok, size != 0)
		}
		if p == nil {
			return r, all, pages
		}
		pages++
		all = append(all, p.Tuples...)
		if p.Next == "" || pages > 100000 {
			return r, all, pages
		}
		tok = p.Next
	}
}

type checkBody struct {
	Allowed bool `json:"allowed"`
}

// CheckREST variants: "get", "get-openapi", "post", "post-openapi".
func (s *Sys) CheckREST(variant string, t Tuple, depth *int) (Resp, *bool) {
	path := "/relation-tuples/check"
	if strings.HasSuffix(variant, "openapi") {
		path += "/openapi"
	}
	v := url.Values{}
	if depth != nil {
		v.Set("max-depth", fmt.Sprint(*depth))
	}
	var r Resp
	if strings.HasPrefix(variant, "get") {
		for k, vs := range tupleURL(t) {
			v[k] = vs
		}
		r = s.REST(s.ReadH, "GET", path, v, nil)
	} else {
		b, _ := json.Marshal(t.API())
		r = s.REST(s.ReadH, "POST", path, v, b)
	}
	if r.Panic != "" || (r.Status != 200 && r.Status != 403) {
		return r, nil
	}
	var cb checkBody
	if err := json.Unmarshal(r.Body, &cb); err != nil {
		return r, nil
	}
	return r, &cb.Allowed
}

func (s *Sys) CheckGRPC(t Tuple, depth int) (Resp, *bool) {
	res, err := s.Check.Check(s.ctx(), &rts.CheckRequest{Tuple: t.Proto(), MaxDepth: int32(depth)})
	r := grpcResp(err)
	if err != nil {
		return r, nil
	}
	a := res.Allowed
	return r, &a
}
