package sim

import (
	"encoding/json"
	"fmt"
	"os"
	"sort"
	"testing"
)

// One run = one generated case with all its executions. The worker writes one
// RunRecord per run as a JSON line; the driver (/verif/check) aggregates.

type Violation struct {
	Property  string         `json:"property"`
	Class     string         `json:"class"`
	Detail    string         `json:"detail"`
	Site      string         `json:"site,omitempty"` // stable key for known-findings matching
	Witness   map[string]any `json:"witness,omitempty"`
	CaseTape  []uint32       `json:"case_tape"`
	ExecTape  []uint32       `json:"exec_tape,omitempty"`
	ExecIndex int            `json:"exec_index"`
	Seed      uint64         `json:"seed"`
	Run       int            `json:"run"`
	Mode      string         `json:"mode,omitempty"`
	Tier      string         `json:"tier,omitempty"`
}

type RunRecord struct {
	Run        int            `json:"run"`
	Seed       uint64         `json:"seed"`
	CaseHash   string         `json:"case_hash,omitempty"`
	NonTrivial bool           `json:"nontrivial"`
	Execs      int            `json:"execs"`
	Schedules  []string       `json:"schedules,omitempty"`
	ParkedSets int            `json:"parked_sets,omitempty"`
	Counters   map[string]int `json:"counters,omitempty"`
	Violations []*Violation   `json:"violations,omitempty"`
	Sample     map[string]any `json:"sample,omitempty"`
	Skipped    string         `json:"skipped,omitempty"`
	SimTimeNs  int64          `json:"sim_time_ns,omitempty"`
	Digest     string         `json:"digest,omitempty"`
	Notes      []string       `json:"notes,omitempty"` // determinism self-test: hash of everything observable
}

type RunCtx struct {
	Property string
	Mode     string
	Tier     string
	Seed     uint64 // seed of this run
	Run      int
	CaseTape *Tape
	// replay
	Replay     bool
	ReplayExec []uint32
	OnlyExec   int // replay: run only this execution index (-1: all)

	Rec        *RunRecord
	WantSample bool
	T          testing.TB
	digest     uint64
	execSeed   uint64
}

func (rc *RunCtx) ExecTape(e int) *Tape {
	if rc.Replay && e == rc.OnlyExec && rc.ReplayExec != nil {
		return ReplayTape(rc.ReplayExec)
	}
	return NewTape(Mix(rc.execSeed, 7777, uint64(e)))
}

func (rc *RunCtx) SkipExec(e int) bool { return rc.Replay && rc.OnlyExec >= 0 && e != rc.OnlyExec }

func (rc *RunCtx) Count(k string, n int) {
	if rc.Rec.Counters == nil {
		rc.Rec.Counters = map[string]int{}
	}
	rc.Rec.Counters[k] += n
}

func (rc *RunCtx) Note(s string) {
	rc.digest = fnv64(s+"\n", rc.digest)
	if debugNotes {
		rc.Rec.Notes = append(rc.Rec.Notes, s)
	}
}

var debugNotes = os.Getenv("VERIF_DEBUG_NOTES") != ""

func (rc *RunCtx) Violate(class, site, detail string, witness map[string]any, execIdx int, et *Tape) *Violation {
	v := &Violation{
		Property: rc.Property, Class: class, Site: site, Detail: detail, Witness: witness,
		CaseTape: rc.CaseTape.Recorded(), ExecIndex: execIdx, Seed: rc.Seed, Run: rc.Run, Mode: rc.Mode, Tier: rc.Tier,
	}
	if et != nil {
		v.ExecTape = et.Recorded()
	}
	rc.Rec.Violations = append(rc.Rec.Violations, v)
	rc.Note("VIOLATION " + class + " " + site)
	return v
}

func (rc *RunCtx) AddSchedule(h uint64) {
	rc.Rec.Schedules = append(rc.Rec.Schedules, fmt.Sprintf("%016x", h))
}

func (rc *RunCtx) finish() {
	rc.Rec.Digest = fmt.Sprintf("%016x", rc.digest)
	sort.Strings(rc.Rec.Schedules)
}

type PropFunc func(env *Env, rc *RunCtx)

var Props = map[string]PropFunc{}

// ReplayFile is what a VIOLATION line points to.
type ReplayFile struct {
	Property  string         `json:"property"`
	Mode      string         `json:"mode,omitempty"`
	Tier      string         `json:"tier"`
	Seed      uint64         `json:"seed"`
	Run       int            `json:"run"`
	Class     string         `json:"class"`
	Site      string         `json:"site,omitempty"`
	Detail    string         `json:"detail"`
	CaseTape  []uint32       `json:"case_tape"`
	ExecTape  []uint32       `json:"exec_tape,omitempty"`
	ExecIndex int            `json:"exec_index"`
	Witness   map[string]any `json:"witness,omitempty"`
	Minimised bool           `json:"minimised"`
	Note      string         `json:"note,omitempty"`
}

func ReadReplay(path string) (*ReplayFile, error) {
	b, err := os.ReadFile(path)
	if err != nil {
		return nil, err
	}
	var r ReplayFile
	return &r, json.Unmarshal(b, &r)
}
