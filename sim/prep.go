package sim

import (
	"fmt"

	"github.com/ory/keto/internal/relationtuple"
)

// PrepCase installs the configuration through keto's real configuration path,
// loads the store through the real mapper and persister under the case's
// storage-order policy, and returns the query in keto's internal form.
//
// class != "" reports that the configuration keto ended up with is not the one
// the generator asked for ("config-rejected", "config-denotation").
func (e *Env) PrepCase(c *Case, lim Limits) (q *relationtuple.RelationTuple, class, detail string, err error) {
	e.Wipe()
	e.cfgKey = ""
	if _, err = e.ApplyConfig(c.Cfg); err != nil {
		return nil, "config-rejected", err.Error(), nil
	}
	if class, detail = e.verifyConfig(c.Cfg); class != "" {
		return nil, class, detail, nil
	}
	e.SetLimitsCached(lim)
	if err = e.LoadOrdered(c.Tuples, c.OrderSeed, c.Order); err != nil {
		return nil, "", "", fmt.Errorf("load: %w", err)
	}
	e.L1.pageSize.Store(int64(c.PageSize))
	its, err := e.Internal(c.Query)
	if err != nil {
		return nil, "", "", fmt.Errorf("map query: %w", err)
	}
	return its[0], "", "", nil
}

func (e *Env) LoadOrdered(ts []Tuple, seed uint64, order int) error {
	theGen.Reseed(seed, order)
	return e.Load(ts)
}

// Reload replaces the stored rows by the same tuples under another storage order.
func (e *Env) Reload(ts []Tuple, seed uint64, order int) error {
	c := e.Reg.Persister().Connection(e.Ctx)
	if err := c.RawQuery("DELETE FROM keto_relation_tuples").Exec(); err != nil {
		return err
	}
	return e.LoadOrdered(ts, seed, order)
}

func (e *Env) SetLimitsCached(l Limits) {
	var d Limits
	if l.Depth != e.lim.Depth {
		d.Depth = l.Depth
	}
	if l.Width != e.lim.Width {
		d.Width = l.Width
	}
	if l.BatchPar != e.lim.BatchPar {
		d.BatchPar = l.BatchPar
	}
	if l.BatchMax != e.lim.BatchMax {
		d.BatchMax = l.BatchMax
	}
	e.SetLimits(d)
	if l.Depth > 0 {
		e.lim.Depth = l.Depth
	}
	if l.Width > 0 {
		e.lim.Width = l.Width
	}
	if l.BatchPar > 0 {
		e.lim.BatchPar = l.BatchPar
	}
	if l.BatchMax > 0 {
		e.lim.BatchMax = l.BatchMax
	}
}

// verifyConfig compares what keto's namespace manager now serves with what the
// generator asked for: namespaces, relations and (up to flattening) rewrites.
func (e *Env) verifyConfig(cfg *Config) (class, detail string) {
	nm, err := e.Reg.Config(e.Ctx).NamespaceManager()
	if err != nil {
		return "config-rejected", err.Error()
	}
	nn, _ := nm.Namespaces(e.Ctx)
	if len(nn) != len(cfg.NS) {
		return "config-rejected", fmt.Sprintf("keto serves %d namespaces, configuration declares %d", len(nn), len(cfg.NS))
	}
	if e.Reg.Config(e.Ctx).StrictMode() != cfg.Strict {
		return "config-rejected", "strict mode flag not applied"
	}
	for _, n := range cfg.NS {
		kn, err := nm.GetNamespaceByName(e.Ctx, n.Name)
		if err != nil {
			return "config-rejected", "namespace missing: " + n.Name
		}
		if cfg.Enc == EncNone {
			continue
		}
		if len(kn.Relations) != len(n.Rels) {
			return "config-rejected", fmt.Sprintf("namespace %s: keto has %d relations, configuration declares %d", n.Name, len(kn.Relations), len(n.Rels))
		}
		seen := map[string]int{}
		for _, r := range n.Rels {
			// a name may be declared more than once (relation and permission of the
			// same name): the k-th declaration is compared with keto's k-th
			want := seen[r.Name]
			seen[r.Name]++
			found := false
			occ := 0
			for i := range kn.Relations {
				kr := &kn.Relations[i]
				if kr.Name != r.Name {
					continue
				}
				if occ != want {
					occ++
					continue
				}
				occ++
				found = true
				if (kr.SubjectSetRewrite != nil) != (r.Rewrite != nil) {
					return "config-denotation", fmt.Sprintf("%s#%s: rewrite presence differs", n.Name, r.Name)
				}
				if r.Rewrite != nil {
					if ok, a, b := SameDenotation(r.Rewrite, kr.SubjectSetRewrite); !ok {
						return "config-denotation", fmt.Sprintf("%s#%s: configuration text denotes %s, keto parsed %s", n.Name, r.Name, a, b)
					}
				}
				if len(kr.Types) != len(r.Types) {
					return "config-denotation", fmt.Sprintf("%s#%s: types differ", n.Name, r.Name)
				}
			}
			if !found {
				return "config-rejected", fmt.Sprintf("relation missing: %s#%s", n.Name, r.Name)
			}
		}
	}
	return "", ""
}
