package sim

import (
	"fmt"
	"strings"

	"github.com/gofrs/uuid"
)

// C06 – networks (tenants) sharing a database are fully isolated (tier S,
// multi-tenant registry: the real routers serve all tenants).

func init() { Props["C06"] = runC06 }

type observable struct {
	name string
	val  string
}

func runC06(env *Env, rc *RunCtx) {
	if rc.Mode == "manager" {
		runC06Manager(env, rc)
		return
	}
	t := rc.CaseTape
	sys := env.SysTier()
	env.Wipe()
	env.UseConfigCached(plainCfg, Limits{Depth: 100, Width: 1000})
	theGen.Reseed(uint64(t.Choose(1<<30)), t.Choose(3))
	dom := DefaultDomain
	nNets := 2
	if rc.Tier == "thorough" && t.Bool(1, 2) {
		nNets = 3
	}
	var nets []uuid.UUID
	for i := 0; i < nNets; i++ {
		u, _ := theGen.NewV4()
		env.AddNetwork(u)
		nets = append(nets, u)
	}
	models := make([]*Model, nNets)
	for i := range models {
		models[i] = &Model{}
	}
	var hist []string
	do := func(net int, op Op) (Resp, []Tuple, bool) {
		sys.Net = nets[net].String()
		defer func() { sys.Net = "" }()
		valid, after, _ := dom.Expect(op, models[net])
		r, got := sys.Do(op)
		hist = append(hist, fmt.Sprintf("[net %d] %s -> %s", net, op, r))
		if r.OK() && valid && op.IsWrite() {
			models[net] = after
		}
		return r, got, valid
	}
	// the other tenants get some data, deliberately with the same strings
	for b := 1; b < nNets; b++ {
		n := t.Range(3, 10)
		for i := 0; i < n; i++ {
			op := dom.GenOp(t, models[b].T, false)
			if op.IsWrite() && !strings.HasPrefix(op.Kind, "delete") {
				do(b, op)
			}
		}
	}
	// fixed observations of the other tenants
	type obsPlan struct {
		queries []Query
		checks  []Tuple
		sets    []SetRef
	}
	plans := make([]obsPlan, nNets)
	for b := 1; b < nNets; b++ {
		for i := 0; i < 5; i++ {
			q := dom.Query(t, models[b].T)
			if dom.ValidQuery(q) {
				plans[b].queries = append(plans[b].queries, q)
			}
		}
		for i := 0; i < 5 && len(models[b].T) > 0; i++ {
			x := models[b].T[t.Choose(len(models[b].T))]
			c := Tuple{NS: x.NS, Obj: x.Obj, Rel: x.Rel, Sub: Subject{ID: pick(t, dom.Users)}}
			if x.Sub.Set == nil && t.Bool(1, 2) {
				c.Sub = x.Sub
			}
			plans[b].checks = append(plans[b].checks, c)
			plans[b].sets = append(plans[b].sets, SetRef{NS: x.NS, Obj: x.Obj, Rel: x.Rel})
		}
	}
	observe := func(b int) []observable {
		sys.Net = nets[b].String()
		defer func() { sys.Net = "" }()
		var out []observable
		_, all, _ := sys.ListAll(Query{}, 0, true)
		out = append(out, observable{"list *", fmt.Sprint(bagKeys(all))})
		for i, q := range plans[b].queries {
			_, ts, _ := sys.ListAll(q, 0, i%2 == 0)
			out = append(out, observable{"list " + q.String(), fmt.Sprint(bagKeys(ts))})
		}
		for _, c := range plans[b].checks {
			r, a := sys.CheckREST("get-openapi", c, nil)
			v := r.String()
			if a != nil {
				v = fmt.Sprint(*a)
			}
			out = append(out, observable{"check " + c.String(), v})
		}
		for _, s := range plans[b].sets {
			_, tree := sys.ExpandREST(s, nil)
			ids := map[string]bool{}
			tree.leavesIDs(ids)
			out = append(out, observable{fmt.Sprintf("expand %v", s), keys(ids)})
		}
		h, n := env.RowsOfNetwork(nets[b])
		out = append(out, observable{"raw rows", fmt.Sprintf("%s/%d", h, n)})
		return out
	}
	snaps := make([][]observable, nNets)
	for b := 1; b < nNets; b++ {
		snaps[b] = observe(b)
		// the snapshot itself must agree with the model of that tenant
		if d := bagDiffKeys(snaps[b][0].val, models[b].T); d != "" {
			rc.Violate("tenant-state", "setup", "tenant listing differs from its own model: "+d, map[string]any{"history": hist}, -1, nil)
			return
		}
	}
	witness := func(extra map[string]any) map[string]any {
		w := map[string]any{"history": hist, "networks": nNets}
		for b := 1; b < nNets; b++ {
			var ms []string
			for _, x := range models[b].T {
				ms = append(ms, x.String())
			}
			w[fmt.Sprintf("tenant_%d_data", b)] = ms
		}
		for k, v := range extra {
			w[k] = v
		}
		return w
	}
	nOps := t.Range(4, 25)
	h := fnv64("c06", 0)
	// one run in twenty-five: tenant A writes a thousand or more relationships in
	// one namespace and removes them again with ONE delete-by-query (sizes around
	// which bulk maintenance would plausibly kick in); the other tenants' names,
	// listings and checks must not notice
	var bulkOps []Op
	if t.Bool(1, 25) {
		k := []int{999, 1000, 1001, 1500}[t.Choose(4)]
		var ds []Delta
		for i := 0; i < k; i++ {
			ds = append(ds, Delta{Insert: true, T: Tuple{NS: "N0", Obj: fmt.Sprintf("bulk-%d", i), Rel: "r0", Sub: Subject{ID: "bulk-user"}}})
		}
		ns := "N0"
		bulkOps = []Op{{Kind: "patch", Deltas: ds}, {Kind: []string{"delete-rest", "delete-grpc"}[t.Choose(2)], Q: &Query{NS: &ns}}}
		nOps += 2
		rc.Count("probe_bulk_write_and_delete_by_query_in_A", 1)
	}
	for i := 0; i < nOps; i++ {
		var op Op
		if len(bulkOps) > 0 && i >= 1 {
			op, bulkOps = bulkOps[0], bulkOps[1:]
		}
		if op.Kind == "" && t.Bool(1, 4) && nNets > 1 {
			// aim at data that exists only in another tenant
			b := 1 + t.Choose(nNets-1)
			if len(models[b].T) > 0 {
				x := models[b].T[t.Choose(len(models[b].T))]
				switch t.Choose(3) {
				case 0:
					op = Op{Kind: "patch", Deltas: []Delta{{Insert: false, T: x}}}
				case 1:
					ns := x.NS
					op = Op{Kind: "delete-rest", Q: &Query{NS: &ns}}
				default:
					op = Op{Kind: "delete-grpc", Q: &Query{}}
				}
			}
		}
		if op.Kind == "" {
			op = dom.GenOp(t, models[0].T, false)
		}
		r, got, valid := do(0, op)
		rc.Rec.Execs++
		h = fnv64(hist[len(hist)-1], h)
		if r.Panic != "" {
			rc.Violate("panic", op.Kind, r.Panic, witness(nil), -1, nil)
			return
		}
		if valid && !r.OK() {
			rc.Violate("valid-rejected", op.Kind, hist[len(hist)-1], witness(nil), -1, nil)
			return
		}
		if !op.IsWrite() && r.OK() {
			if d := bagDiff(got, models[0].Match(*op.Q)); d != "" {
				rc.Violate("cross-network", "list-in-A", "a listing in tenant A differs from A's model (foreign data?): "+d, witness(nil), -1, nil)
				return
			}
		}
		// tenant A sees exactly its own data
		sys.Net = nets[0].String()
		_, allA, _ := sys.ListAll(Query{}, 0, i%2 == 0)
		if len(models[0].T) > 0 {
			x := models[0].T[t.Choose(len(models[0].T))]
			c := Tuple{NS: x.NS, Obj: x.Obj, Rel: x.Rel, Sub: Subject{ID: pick(t, dom.Users)}}
			ref := RefCheck(plainCfg, models[0].T, c)
			if _, a := sys.CheckREST("get-openapi", c, nil); a != nil && *a != ref.Allowed {
				sys.Net = ""
				rc.Violate("cross-network", "check-in-A", fmt.Sprintf("check %s in tenant A = %v, A's model says %v", c, *a, ref.Allowed), witness(nil), -1, nil)
				return
			}
		}
		// a relationship that exists only in another tenant is not allowed in A
		for b := 1; b < nNets; b++ {
			if len(models[b].T) == 0 {
				continue
			}
			x := models[b].T[t.Choose(len(models[b].T))]
			if x.Sub.Set != nil {
				continue
			}
			ref := RefCheck(plainCfg, models[0].T, x)
			if _, a := sys.CheckREST("get-openapi", x, nil); a != nil && *a != ref.Allowed {
				sys.Net = ""
				rc.Violate("cross-network", "check-in-A", fmt.Sprintf("check %s (stored only in tenant %d) in tenant A = %v, A's model says %v", x, b, *a, ref.Allowed), witness(nil), -1, nil)
				return
			}
			rc.Count("probe_foreign_check", 1)
		}
		sys.Net = ""
		if d := bagDiff(allA, models[0].T); d != "" {
			rc.Violate("cross-network", "state-of-A", "tenant A's listing differs from A's model: "+d, witness(nil), -1, nil)
			return
		}
		// every observable of every other tenant is unchanged
		for b := 1; b < nNets; b++ {
			now := observe(b)
			for j := range now {
				if now[j].val != snaps[b][j].val {
					rc.Violate("cross-network", "observable-of-B", fmt.Sprintf("after an operation in tenant A, tenant %d's %q changed from %s to %s", b, now[j].name, snaps[b][j].val, now[j].val), witness(nil), -1, nil)
					return
				}
			}
		}
		if strings.HasPrefix(op.Kind, "delete") && r.OK() {
			rc.Count("probe_delete_in_A", 1)
		}
	}
	rc.Rec.CaseHash = fmt.Sprintf("%016x", h)
	nb := 0
	for b := 1; b < nNets; b++ {
		nb += len(models[b].T)
	}
	rc.Rec.NonTrivial = nb > 0
	rc.Count("ops_in_A", nOps)
	rc.Note(fmt.Sprintf("%016x", h))
	if rc.WantSample {
		rc.Rec.Sample = witness(nil)
	}
}

func bagKeys(ts []Tuple) []string {
	var ks []string
	for k, n := range bag(ts) {
		ks = append(ks, fmt.Sprintf("%s x%d", k, n))
	}
	sortStrings(ks)
	return ks
}

func bagDiffKeys(got string, want []Tuple) string {
	if got != fmt.Sprint(bagKeys(want)) {
		return fmt.Sprintf("got %s want %v", got, bagKeys(want))
	}
	return ""
}
