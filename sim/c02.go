package sim

import (
	"fmt"

	"github.com/sirupsen/logrus"
)

// C02 – depth and width limits fail closed and can only be lowered per
// request (tier E).
//
// Oracle 1: Check_{r,g,w}(q) = allowed  =>  R1(q) = allowed (unbounded
// reference; non-stratified cases skipped and counted).
// Oracle 2: the run (request depth r, global g) and the run (request depth 0,
// global eff(r,g)) under the same tape on the same store give the same
// decision and the same storage trace, call for call.
//
// eff(r,g) = r if 0 < r <= g else g    (from the property text)

func init() { Props["C02"] = runC02 }

func runC02(env *Env, rc *RunCtx) {
	t := rc.CaseTape
	g := t.Range(1, 8)
	r := t.Range(-3, 10)
	w := []int{1, 2, 3, 5, 100}[t.Choose(5)]
	wide := 0
	if t.Bool(1, 3) {
		wide = t.Range(2, 7)
	}
	c := GenCase(t, GenOpts{Enc: -1, AllowRecursion: true, Gadgets: true, WideNode: wide, NoNegation: rc.Mode == "positive"})
	rc.Rec.CaseHash = fmt.Sprintf("%016x", c.Hash()^uint64(g*1000003+(r+5)*1009+w))
	ref := RefCheck(c.Cfg, c.Tuples, c.Query)
	eff := g
	if r > 0 && r <= g {
		eff = r
	}
	env.SetLogLevel(logrus.DebugLevel)
	q, class, _, err := env.PrepCase(c, Limits{Depth: g, Width: w})
	if err != nil {
		env.T.Fatalf("harness: %v", err)
	}
	if class != "" {
		rc.Rec.Skipped = "config:" + class
		return
	}
	if ref.NonStratified {
		rc.Count("ref_nonstratified", 1)
	}
	desc := func(extra map[string]any) map[string]any {
		d := c.Describe()
		d["limits"] = map[string]any{"global_max_depth": g, "request_max_depth": r, "effective": eff, "max_read_width": w}
		d["reference"] = map[string]any{"allowed": ref.Allowed, "non_stratified": ref.NonStratified, "reachable_nodes": ref.Reachable}
		for k, v := range extra {
			d[k] = v
		}
		return d
	}
	nExec := execsFor(rc.Tier, 3, 8)
	type runA struct {
		out   CheckOut
		trace []string
		tape  []uint32
		ok    bool
	}
	as := make([]runA, nExec)
	d0, w0 := env.Log.DepthCut.Load(), env.Log.WidthCut.Load()
	for e := 0; e < nExec; e++ {
		if rc.SkipExec(e) {
			continue
		}
		et := rc.ExecTape(e)
		d1, w1 := env.Log.DepthCut.Load(), env.Log.WidthCut.Load()
		res := env.Exec(et, []*Request{{Kind: "check", Tuple: q, Depth: r}}, NoFaults())
		cutInExec := env.Log.DepthCut.Load() > d1 || env.Log.WidthCut.Load() > w1
		rc.Rec.Execs++
		rc.AddSchedule(res.TraceHash)
		if !res.Returned || len(res.Outs) != 1 {
			rc.Count("no_result", 1) // C15's business
			continue
		}
		o := res.Outs[0]
		as[e] = runA{out: o, trace: res.Trace, tape: et.Recorded(), ok: true}
		rc.Note(fmt.Sprintf("A e=%d out=%v trace=%016x", e, o, res.TraceHash))
		if o.Err != "" {
			rc.Count("errors", 1)
			continue
		}
		if o.Allowed() {
			rc.Count("allowed_under_limit", 1)
		} else if ref.Allowed && !ref.NonStratified {
			rc.Count("probe_cut_turned_allowed_into_denied", 1)
		}
		if o.Allowed() && !ref.NonStratified && !ref.Allowed {
			site := "positive"
			if c.Cfg.HasNegation() {
				site = "negation"
			}
			rc.Violate("fail-open-under-limit", site,
				fmt.Sprintf("allowed with global depth %d, request depth %d, width %d, but denied by the unbounded semantics", g, r, w),
				desc(map[string]any{"schedule": res.Trace, "results": res.Outs, "cut_occurred": cutInExec, "config_has_negation": c.Cfg.HasNegation()}), e, et)
			return
		}
	}
	dc, wc := env.Log.DepthCut.Load()-d0, env.Log.WidthCut.Load()-w0
	if dc > 0 {
		rc.Count("probe_depth_cut", 1)
		if c.Cfg.HasNegation() {
			rc.Count("probe_depth_cut_with_negation", 1)
		}
	}
	if wc > 0 {
		rc.Count("probe_width_cut", 1)
	}
	rc.Rec.NonTrivial = dc > 0 || wc > 0
	// Oracle 2: same requests against a server whose global limit is eff, request depth 0
	env.SetLimitsCached(Limits{Depth: eff, Width: w})
	for e := 0; e < nExec; e++ {
		if rc.SkipExec(e) || !as[e].ok {
			continue
		}
		et := ReplayThen(as[e].tape, Mix(rc.execSeed, 99, uint64(e)))
		res := env.Exec(et, []*Request{{Kind: "check", Tuple: q, Depth: 0}}, NoFaults())
		rc.Rec.Execs++
		if !res.Returned || len(res.Outs) != 1 {
			rc.Count("no_result", 1)
			continue
		}
		o := res.Outs[0]
		rc.Note(fmt.Sprintf("B e=%d out=%v trace=%016x", e, o, res.TraceHash))
		same := o.Membership == as[e].out.Membership && (o.Err == "") == (as[e].out.Err == "")
		tr := len(res.Trace) == len(as[e].trace)
		if tr {
			for i := range res.Trace {
				if res.Trace[i] != as[e].trace[i] {
					tr = false
					break
				}
			}
		}
		if !same || !tr {
			what := "decision"
			if same {
				what = "storage-trace"
			}
			rc.Violate("request-depth", what,
				fmt.Sprintf("(request %d, global %d) gave %v; (request 0, global %d) gave %v", r, g, as[e].out, eff, o),
				desc(map[string]any{"schedule_request_depth": as[e].trace, "schedule_global_eff": res.Trace}), e, &Tape{Rec: as[e].tape})
			return
		}
		rc.Count("pairs_equal", 1)
	}
	if r <= 0 {
		rc.Count("probe_request_depth_nonpositive", 1)
	} else if r > g {
		rc.Count("probe_request_depth_above_global", 1)
	} else {
		rc.Count("probe_request_depth_lowers", 1)
	}
	if rc.WantSample {
		rc.Rec.Sample = desc(nil)
	}
}
