package sim

import (
	"fmt"

	"github.com/sirupsen/logrus"

	"github.com/ory/keto/ketoapi"
)

// C02 – depth and width limits fail closed and can only be lowered per
// request (tier E).
//
// Oracle 1: Check_{r,g,w}(q) = allowed  =>  R1(q) = allowed (unbounded
// reference; non-stratified cases skipped and counted).
// Oracle 2: the run (request depth r, global g) and the run (request depth 0,
// global eff(r,g)) under the same tape on the same store give the same
// decision and the same storage trace, call for call.
//
// eff(r,g) = r if 0 < r <= g else g    (from the property text)

func init() { Props["C02"] = runC02 }

func runC02(env *Env, rc *RunCtx) {
	t := rc.CaseTape
	g := t.Range(1, 8)
	r := t.Range(-3, 10)
	w := []int{1, 2, 3, 5, 100}[t.Choose(5)]
	wide := 0
	if t.Bool(1, 3) {
		wide = t.Range(2, 7)
	}
	c := GenCase(t, GenOpts{Enc: -1, AllowRecursion: true, Gadgets: true, WideNode: wide, WideMember: true, NoNegation: rc.Mode == "positive"})
	// One case in five (not in mode positive): access = allow && !deny, where deny
	// fans out to k groups (k around and above the width limit) and the subject is a
	// member of at most one of them, directly or one group further down. A width cut
	// that hides the deciding group below the negation must not turn into "allowed".
	if rc.Mode != "positive" && t.Bool(1, 5) {
		k := t.Range(2, 12)
		if t.Bool(1, 4) {
			k = t.Range(20, 45)
		}
		ty := []TypeRef{{NS: "N1"}, {NS: "N0", Rel: "member"}}
		c.Cfg = &Config{Enc: c.Cfg.Enc, NS: []*NSDef{
			{Name: "N0", Rels: []*RelDef{{Name: "allow", Types: ty}, {Name: "deny", Types: ty}, {Name: "member", Types: ty},
				{Name: "access", Rewrite: &Expr{Kind: ExAnd, Children: []*Expr{{Kind: ExIncludes, Rel: "allow"}, {Kind: ExNot, Children: []*Expr{{Kind: ExIncludes, Rel: "deny"}}}}}}}},
			{Name: "N1"}}}
		if c.Cfg.Enc == EncNone {
			c.Cfg.Enc = EncOPL
		}
		u := Subject{ID: "u0"}
		c.Tuples = []Tuple{{NS: "N0", Obj: "doc", Rel: "allow", Sub: u}}
		for i := 0; i < k; i++ {
			c.Tuples = append(c.Tuples, Tuple{NS: "N0", Obj: "doc", Rel: "deny", Sub: Subject{Set: &SetRef{NS: "N0", Obj: fmt.Sprintf("g%d", i), Rel: "member"}}})
		}
		switch t.Choose(3) {
		case 0: // a direct member of one group
			c.Tuples = append(c.Tuples, Tuple{NS: "N0", Obj: fmt.Sprintf("g%d", t.Choose(k)), Rel: "member", Sub: u})
		case 1: // one group further down
			c.Tuples = append(c.Tuples, Tuple{NS: "N0", Obj: fmt.Sprintf("g%d", t.Choose(k)), Rel: "member", Sub: Subject{Set: &SetRef{NS: "N0", Obj: "inner", Rel: "member"}}},
				Tuple{NS: "N0", Obj: "inner", Rel: "member", Sub: u})
		}
		c.Query = Tuple{NS: "N0", Obj: "doc", Rel: "access", Sub: u}
		c.Conforming = true
		if g < 4 {
			g = t.Range(4, 8)
		}
		if w > 5 {
			w = []int{1, 2, 3, 5}[t.Choose(4)]
		}
		rc.Count("probe_fanout_below_negation", 1)
	}
	rc.Rec.CaseHash = fmt.Sprintf("%016x", c.Hash()^uint64(g*1000003+(r+5)*1009+w))
	ref := RefCheck(c.Cfg, c.Tuples, c.Query)
	eff := g
	if r > 0 && r <= g {
		eff = r
	}
	env.SetLogLevel(logrus.DebugLevel)
	q, class, _, err := env.PrepCase(c, Limits{Depth: g, Width: w})
	if err != nil {
		env.T.Fatalf("harness: %v", err)
	}
	if class != "" {
		rc.Rec.Skipped = "config:" + class
		return
	}
	if ref.NonStratified {
		rc.Count("ref_nonstratified", 1)
	}
	desc := func(extra map[string]any) map[string]any {
		d := c.Describe()
		d["limits"] = map[string]any{"global_max_depth": g, "request_max_depth": r, "effective": eff, "max_read_width": w}
		d["reference"] = map[string]any{"allowed": ref.Allowed, "non_stratified": ref.NonStratified, "reachable_nodes": ref.Reachable}
		for k, v := range extra {
			d[k] = v
		}
		return d
	}
	// the request goes through the single-check or the batch entry point
	batch := t.Bool(1, 4)
	apiQ := c.Query.API()
	mkReq := func(depth int) []*Request {
		if batch {
			return []*Request{{Kind: "batch", Batch: []*ketoapi.RelationTuple{apiQ}, Depth: depth}}
		}
		return []*Request{{Kind: "check", Tuple: q, Depth: depth}}
	}
	if batch {
		rc.Count("probe_batch_entry_point", 1)
	}
	nExec := execsFor(rc.Tier, 3, 8)
	type runA struct {
		out   CheckOut
		trace []string
		tape  []uint32
		ok    bool
	}
	as := make([]runA, nExec)
	d0, w0 := env.Log.DepthCut.Load(), env.Log.WidthCut.Load()
	for e := 0; e < nExec; e++ {
		if rc.SkipExec(e) {
			continue
		}
		et := rc.ExecTape(e)
		d1, w1 := env.Log.DepthCut.Load(), env.Log.WidthCut.Load()
		res := env.Exec(et, mkReq(r), NoFaults())
		cutInExec := env.Log.DepthCut.Load() > d1 || env.Log.WidthCut.Load() > w1
		rc.Rec.Execs++
		rc.AddSchedule(res.TraceHash)
		if !res.Returned || len(res.Outs) != 1 {
			rc.Count("no_result", 1) // C15's business
			continue
		}
		o := res.Outs[0]
		as[e] = runA{out: o, trace: res.Trace, tape: et.Recorded(), ok: true}
		rc.Note(fmt.Sprintf("A e=%d out=%v trace=%016x", e, o, res.TraceHash))
		if o.Err != "" {
			rc.Count("errors", 1)
			continue
		}
		if o.Allowed() {
			rc.Count("allowed_under_limit", 1)
		} else if ref.Allowed && !ref.NonStratified {
			rc.Count("probe_cut_turned_allowed_into_denied", 1)
		}
		if o.Allowed() && !ref.NonStratified && !ref.Allowed {
			site := "positive"
			if c.Cfg.HasNegation() {
				site = "negation"
			}
			rc.Violate("fail-open-under-limit", site,
				fmt.Sprintf("allowed with global depth %d, request depth %d, width %d, but denied by the unbounded semantics", g, r, w),
				desc(map[string]any{"schedule": res.Trace, "results": res.Outs, "cut_occurred": cutInExec, "config_has_negation": c.Cfg.HasNegation()}), e, et)
			return
		}
	}
	dc, wc := env.Log.DepthCut.Load()-d0, env.Log.WidthCut.Load()-w0
	if dc > 0 {
		rc.Count("probe_depth_cut", 1)
		if c.Cfg.HasNegation() {
			rc.Count("probe_depth_cut_with_negation", 1)
		}
	}
	if wc > 0 {
		rc.Count("probe_width_cut", 1)
	}
	rc.Rec.NonTrivial = dc > 0 || wc > 0
	// Oracle 2: same requests against a server whose global limit is eff, request depth 0.
	// Go's select between several ready channels is not seedable, so two
	// executions of one tape can (rarely) differ without any defect. A
	// difference is therefore reported only when it is CONSISTENT: three
	// executions of (r,g) agree with each other, three executions of (0,eff)
	// agree with each other, and the two groups differ.
	type obs struct {
		out   CheckOut
		trace string
	}
	runOnce := func(depth int, tape []uint32, seed uint64) (obs, bool) {
		res := env.Exec(ReplayThen(tape, seed), mkReq(depth), NoFaults())
		rc.Rec.Execs++
		if !res.Returned || len(res.Outs) != 1 {
			return obs{}, false
		}
		return obs{out: res.Outs[0], trace: fmt.Sprint(res.Trace)}, true
	}
	same := func(a, b obs) bool {
		return a.out.Membership == b.out.Membership && (a.out.Err == "") == (b.out.Err == "") && a.trace == b.trace
	}
	for e := 0; e < nExec; e++ {
		if rc.SkipExec(e) || !as[e].ok {
			continue
		}
		seed := Mix(rc.execSeed, 99, uint64(e))
		env.SetLimitsCached(Limits{Depth: eff, Width: w})
		b1, ok := runOnce(0, as[e].tape, seed)
		if !ok {
			rc.Count("no_result", 1)
			continue
		}
		a1 := obs{out: as[e].out, trace: fmt.Sprint(as[e].trace)}
		rc.Note(fmt.Sprintf("B e=%d out=%v", e, b1.out))
		if same(a1, b1) {
			rc.Count("pairs_equal", 1)
			continue
		}
		// confirm
		consistent := true
		for i := 0; i < 2 && consistent; i++ {
			bi, ok := runOnce(0, as[e].tape, seed)
			consistent = ok && same(bi, b1)
		}
		env.SetLimitsCached(Limits{Depth: g, Width: w})
		for i := 0; i < 2 && consistent; i++ {
			ai, ok := runOnce(r, as[e].tape, seed)
			consistent = ok && same(ai, a1)
		}
		if !consistent {
			rc.Count("inconclusive_unseedable_select", 1)
			continue
		}
		what := "decision"
		if a1.out.Membership == b1.out.Membership && (a1.out.Err == "") == (b1.out.Err == "") {
			what = "storage-trace"
		}
		rc.Violate("request-depth", what,
			fmt.Sprintf("(request %d, global %d) gave %v; (request 0, global %d) gave %v (consistently, 3 executions each)", r, g, a1.out, eff, b1.out),
			desc(map[string]any{"schedule_request_depth": a1.trace, "schedule_global_eff": b1.trace, "entry_point": mkReq(0)[0].Kind}), e, &Tape{Rec: as[e].tape})
		return
	}
	// Depth sweep (one case in three): the same comparison for up to three more
	// request depths in 1..g, one execution each - the depth at which a limit
	// starts to bind is the interesting one, and a single random r rarely hits it.
	if t.Bool(1, 3) && g >= 2 {
		var extra []int
		for _, x := range []int{1, 2, 3, g - 1, g} {
			dup := x == r || x < 1 || x > g
			for _, y := range extra {
				if y == x {
					dup = true
				}
			}
			if !dup && len(extra) < 3 {
				extra = append(extra, x)
			}
		}
		for idx, r2 := range extra {
			e := 100 + idx
			if rc.SkipExec(e) {
				continue
			}
			et := rc.ExecTape(e)
			env.SetLimitsCached(Limits{Depth: g, Width: w})
			resA := env.Exec(et, mkReq(r2), NoFaults())
			rc.Rec.Execs++
			if !resA.Returned || len(resA.Outs) != 1 {
				continue
			}
			a1 := obs{out: resA.Outs[0], trace: fmt.Sprint(resA.Trace)}
			rec := et.Recorded()
			seed := Mix(rc.execSeed, 98, uint64(e))
			env.SetLimitsCached(Limits{Depth: r2, Width: w})
			b1, ok := runOnce(0, rec, seed)
			if !ok {
				continue
			}
			rc.Count("sweep_pairs", 1)
			if same(a1, b1) {
				continue
			}
			consistent := true
			for i := 0; i < 2 && consistent; i++ {
				bi, ok := runOnce(0, rec, seed)
				consistent = ok && same(bi, b1)
			}
			env.SetLimitsCached(Limits{Depth: g, Width: w})
			for i := 0; i < 2 && consistent; i++ {
				ai, ok := runOnce(r2, rec, seed)
				consistent = ok && same(ai, a1)
			}
			if !consistent {
				rc.Count("inconclusive_unseedable_select", 1)
				continue
			}
			what := "decision"
			if a1.out.Membership == b1.out.Membership && (a1.out.Err == "") == (b1.out.Err == "") {
				what = "storage-trace"
			}
			d := desc(map[string]any{"schedule_request_depth": a1.trace, "schedule_global_eff": b1.trace, "entry_point": mkReq(0)[0].Kind, "swept_request_depth": r2})
			rc.Violate("request-depth", what,
				fmt.Sprintf("(request %d, global %d) gave %v; (request 0, global %d) gave %v (consistently, 3 executions each)", r2, g, a1.out, r2, b1.out), d, e, &Tape{Rec: rec})
			return
		}
		env.SetLimitsCached(Limits{Depth: g, Width: w})
	}
	if r <= 0 {
		rc.Count("probe_request_depth_nonpositive", 1)
	} else if r > g {
		rc.Count("probe_request_depth_above_global", 1)
	} else {
		rc.Count("probe_request_depth_lowers", 1)
	}
	if rc.WantSample {
		rc.Rec.Sample = desc(nil)
	}
}
