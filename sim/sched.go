package sim

import (
	"context"
	"errors"
	"fmt"
	"sort"
	"strings"
	"sync"
	"testing/synctest"
	"time"

	"github.com/ory/x/sqlcon"
	pkgerrors "github.com/pkg/errors"
)

// Sched is the tier-E/W scheduler: tasks park at the storage seam (L1) holding
// no lock; testing/synctest tells the controller when every other goroutine of
// the bubble is durably blocked; the controller then releases exactly one
// parked call, chosen by the tape.

type FaultKind int

const (
	FaultNone       FaultKind = iota
	FaultTransient            // this call returns an error instead of calling through
	FaultPersistent           // this and every later call returns an error
	FaultCtx                  // the request context is cancelled and its error returned
	FaultConflict             // this call fails with the error the persister reports for a serialization failure (sqlcon.ErrConcurrentUpdate): the retryable kind
)

func (k FaultKind) String() string {
	switch k {
	case FaultTransient:
		return "transient"
	case FaultPersistent:
		return "persistent"
	case FaultCtx:
		return "ctx"
	case FaultConflict:
		return "conflict"
	}
	return "none"
}

var ErrInjected = errors.New("sim: injected storage failure")

type parkedCall struct {
	key string
	op  string
	seq int
	req int
	ch  chan releaseMsg
	ctx context.Context
	// straggler: overtaken by a cancellation, but "already answered": stays
	// schedulable and completes (late) whenever the tape releases it
	straggler bool
	// blockedAt: lock epoch in which this goroutine's TryLock failed (-1: not a
	// blocked lock waiter). It is schedulable again once some lock was released.
	blockedAt int
}

// releaseMsg: err != nil - the call fails without reaching storage; late - the
// call's context was cancelled while it was parked, but the storage round trip
// "had already completed": the call is carried out on a detached context and its
// caller continues with the rows (a straggler of a cancelled sub-check).
type releaseMsg struct {
	err  error
	late bool
}

type Sched struct {
	mu       sync.Mutex
	parked   []*parkedCall
	arrivals int

	tape *Tape

	// plan
	FaultAt       map[int]FaultKind // 1-based index of released call -> fault
	CancelAfter   int               // cancel request 0 after this many released calls (-1: never)
	Latency       time.Duration     // simulated duration of every released storage call
	Sticky        int               // > 1: the request released last is released again with probability 1-1/Sticky (bursts)
	lastReq       int
	LockSites     string // substring of the simlock sites that are scheduling points ("" none)
	lockEpoch     int
	LockContended int
	Cancels       []context.CancelFunc

	// state
	Released        int
	persistent      bool
	Trace           []string
	MaxParked       int
	Quanta          int
	FaultsFired     map[string]int
	OpCount         map[string]int
	ParkedSets      map[uint64]struct{}
	draining        bool
	CancelledAt     int // released calls at the moment the cancel was delivered (-1: none)
	Ties            int
	Zombies         int // calls that arrived on, or were overtaken by, a cancelled context
	idleRounds      int
	LateCompletions bool   // overtaken calls may complete late (tape-chosen)
	OnQuantum       func() // called after every release (staggered request starts)
	Late            int
}

func NewSched(t *Tape) *Sched {
	return &Sched{
		tape:        t,
		FaultAt:     map[int]FaultKind{},
		CancelAfter: -1,
		lastReq:     -1,
		CancelledAt: -1,
		FaultsFired: map[string]int{},
		OpCount:     map[string]int{},
		ParkedSets:  map[uint64]struct{}{},
	}
}

// Enter is called by the L1 seam before every storage call. It parks the
// caller until the controller releases it and returns the injected error, if
// any. req identifies the request the call belongs to (from the context).
func (s *Sched) Enter(ctx context.Context, op, key string) (error, bool) {
	// A storage call issued on a context that is already cancelled fails at
	// once in database/sql; it never reaches the database and is not a
	// scheduling event. (Whether a cancelled sub-check gets this far at all is
	// decided by Go's select, which is not seedable: keeping such calls out of
	// the parked set keeps the tape's choices independent of it.)
	if err := ctx.Err(); err != nil {
		s.mu.Lock()
		s.Zombies++
		s.mu.Unlock()
		return err, false
	}
	p := &parkedCall{key: key, op: op, ch: make(chan releaseMsg), req: reqOf(ctx), ctx: ctx, blockedAt: -1}
	s.mu.Lock()
	p.seq = s.arrivals
	s.arrivals++
	s.parked = append(s.parked, p)
	s.mu.Unlock()
	m := <-p.ch
	if s.Latency > 0 && m.err == nil {
		// the call takes simulated time; a context that ends meanwhile ends the call
		// (the plan keeps deadlines off the multiples of the latency: no ties)
		tm := time.NewTimer(s.Latency)
		select {
		case <-tm.C:
		case <-ctx.Done():
			tm.Stop()
			return ctx.Err(), m.late
		}
	}
	return m.err, m.late
}

// AcquireLock is the simlock hook of tier E/T: the goroutine parks like a storage
// call before it tries the lock; if the lock is held it is set aside until some
// lock has been released. Sites that do not match LockSites are not scheduled.
func (s *Sched) AcquireLock(site string, try func() bool, lock func()) {
	if s.LockSites == "" || !strings.Contains(site, s.LockSites) {
		lock()
		return
	}
	s.mu.Lock()
	rank := 0
	for _, q := range s.parked {
		if q.op == "lock" {
			rank++
		}
	}
	s.mu.Unlock()
	key := fmt.Sprintf("lock %s #%d", site, rank)
	_, _ = s.Enter(context.Background(), "lock", key)
	for !try() {
		p := &parkedCall{key: key + " (held)", op: "lockwait", ch: make(chan releaseMsg), ctx: context.Background()}
		s.mu.Lock()
		p.blockedAt = s.lockEpoch
		p.seq = s.arrivals
		s.arrivals++
		s.parked = append(s.parked, p)
		s.LockContended++
		s.mu.Unlock()
		<-p.ch
	}
}

// LockReleased is the other half of the hook.
func (s *Sched) LockReleased(site string) {
	if s.LockSites == "" || !strings.Contains(site, s.LockSites) {
		return
	}
	s.mu.Lock()
	s.lockEpoch++
	s.mu.Unlock()
}

type reqKey struct{}

func withReq(ctx context.Context, i int) context.Context {
	return context.WithValue(ctx, reqKey{}, i)
}
func reqOf(ctx context.Context) int {
	if v, ok := ctx.Value(reqKey{}).(int); ok {
		return v
	}
	return 0
}

type DriveOutcome int

const (
	DriveDone DriveOutcome = iota
	DriveHang
	DriveStepLimit
)

func fnv64(s string, h uint64) uint64 {
	if h == 0 {
		h = 1469598103934665603
	}
	for i := 0; i < len(s); i++ {
		h ^= uint64(s[i])
		h *= 1099511628211
	}
	return h
}

func (s *Sched) snapshot() []*parkedCall {
	s.mu.Lock()
	defer s.mu.Unlock()
	P := append([]*parkedCall(nil), s.parked...)
	sort.SliceStable(P, func(i, j int) bool {
		if P[i].req != P[j].req {
			return P[i].req < P[j].req
		}
		if P[i].key != P[j].key {
			return P[i].key < P[j].key
		}
		return P[i].seq < P[j].seq
	})
	return P
}

func (s *Sched) remove(p *parkedCall) {
	s.mu.Lock()
	defer s.mu.Unlock()
	for i, q := range s.parked {
		if q == p {
			s.parked = append(s.parked[:i], s.parked[i+1:]...)
			return
		}
	}
}

func (s *Sched) NumParked() int {
	s.mu.Lock()
	defer s.mu.Unlock()
	return len(s.parked)
}

// Drive runs quanta until done() is true. maxSteps bounds the number of
// released calls.
func (s *Sched) Drive(done func() bool, maxSteps int) DriveOutcome {
	for {
		synctest.Wait()
		if done() {
			return DriveDone
		}
		if s.CancelAfter >= 0 && s.Released >= s.CancelAfter && len(s.Cancels) > 0 {
			s.CancelAfter = -1
			s.Trace = append(s.Trace, "CANCEL")
			s.CancelledAt = s.Released
			s.Cancels[0]()
			continue
		}
		P := s.snapshot()
		if s.flushZombies(P) {
			continue
		}
		if s.LockSites != "" {
			// lock waiters whose TryLock failed stay aside until a lock is released
			s.mu.Lock()
			ep := s.lockEpoch
			s.mu.Unlock()
			Q := P[:0:0]
			for _, p := range P {
				if p.blockedAt < 0 || p.blockedAt != ep {
					Q = append(Q, p)
				}
			}
			if len(Q) == 0 && len(P) > 0 {
				s.Trace = append(s.Trace, "DEADLOCK: every parked goroutine waits for a held lock")
				return DriveHang
			}
			P = Q
		}
		if len(P) == 0 {
			// nothing parked and not done: either a hang, or somebody sleeps on the
			// (fake) clock - pop's sqlite dialect retries "database is locked" after
			// a sleep. Let simulated time pass before calling it a hang.
			if s.idleRounds < 200 {
				s.idleRounds++
				idle := 250 * time.Millisecond
				if s.Latency > 0 {
					idle = s.Latency / 4 // (a storage call in progress: look again soon)
				}
				time.Sleep(idle)
				continue
			}
			return DriveHang
		}
		s.idleRounds = 0
		if s.Released >= maxSteps {
			return DriveStepLimit
		}
		s.Quanta++
		if len(P) > s.MaxParked {
			s.MaxParked = len(P)
		}
		// distinct (req,key) classes; within a class the earliest arrival runs
		var classes []*parkedCall
		var h uint64
		for i, p := range P {
			h = fnv64(fmt.Sprintf("%d|%s;", p.req, p.key), h)
			if i > 0 && P[i-1].req == p.req && P[i-1].key == p.key {
				s.Ties++
				continue
			}
			classes = append(classes, p)
		}
		s.ParkedSets[h] = struct{}{}
		var p *parkedCall
		if s.Sticky > 1 && s.lastReq >= 0 {
			// bursts: with probability 1-1/Sticky the request that ran last runs on, so
			// that one request can get through MANY steps (a whole transaction) between
			// two steps of another - uniform choice makes such schedules vanishingly rare
			for _, c := range classes {
				if c.req == s.lastReq && c.op != "lockwait" {
					if s.tape.Choose(s.Sticky) != 0 {
						p = c
					}
					break
				}
			}
		}
		if p == nil {
			p = classes[s.tape.Choose(len(classes))]
		}
		s.lastReq = p.req
		s.release(p)
		if s.OnQuantum != nil {
			s.OnQuantum()
		}
	}
}

func (s *Sched) release(p *parkedCall) {
	s.remove(p)
	s.Released++
	s.OpCount[p.op]++
	if p.straggler {
		s.Late++
		s.Trace = append(s.Trace, p.key)
		p.ch <- releaseMsg{late: true}
		return
	}
	var err error
	if s.persistent {
		err = ErrInjected
		s.FaultsFired["persistent-follow"]++
	}
	if !s.draining {
		if k, ok := s.FaultAt[s.Released]; ok {
			switch k {
			case FaultTransient:
				err = ErrInjected
			case FaultPersistent:
				err = ErrInjected
				s.persistent = true
			case FaultConflict:
				err = pkgerrors.WithStack(sqlcon.ErrConcurrentUpdate)
			case FaultCtx:
				if p.req < len(s.Cancels) {
					s.Cancels[p.req]()
				}
				err = context.Canceled
			}
			s.FaultsFired[k.String()]++
			s.Trace = append(s.Trace, fmt.Sprintf("FAULT(%s)@%d", k, s.Released))
		}
	}
	if s.draining {
		s.Trace = append(s.Trace, "drain:"+p.key)
	} else if p.req != 0 {
		s.Trace = append(s.Trace, fmt.Sprintf("r%d:%s", p.req, p.key))
	} else {
		s.Trace = append(s.Trace, p.key)
	}
	p.ch <- releaseMsg{err: err}
}

// flushZombies fails every parked call whose context has been cancelled in
// the meantime (it would fail in database/sql without reaching the database).
func (s *Sched) flushZombies(P []*parkedCall) bool {
	any := false
	for _, p := range P {
		if p.straggler {
			continue
		}
		if err := p.ctx.Err(); err != nil {
			s.mu.Lock()
			s.Zombies++
			s.mu.Unlock()
			// The call was parked while its context was live and has been overtaken by a
			// cancellation (a deterministic event). The tape decides whether the query
			// "was already answered" when the cancellation arrived: then it becomes a
			// straggler - it stays schedulable and, whenever the tape releases it, its
			// caller (a cancelled sub-check) continues with real rows.
			if s.LateCompletions && s.tape.Choose(3) == 0 {
				p.straggler = true
				p.key = "late:" + p.key
				continue
			}
			s.remove(p)
			p.ch <- releaseMsg{err: err}
			any = true
		}
	}
	return any
}

// Drain is used after the request returned and its context was cancelled:
// everything still parked is now on a cancelled context and fails; anything
// that is still live (a context the request does not own) is released in
// canonical order, one call per quantum.
func (s *Sched) Drain(limit int) (released int) {
	s.draining = true
	for released < limit {
		synctest.Wait()
		P := s.snapshot()
		if len(P) == 0 {
			return
		}
		if s.flushZombies(P) {
			released++
			continue
		}
		// what is left: stragglers (complete late) and calls on contexts the request does not own
		P = s.snapshot()
		if len(P) == 0 {
			return
		}
		s.release(P[0])
		released++
	}
	return
}

func (s *Sched) TraceHash() uint64 {
	var h uint64
	for _, t := range s.Trace {
		h = fnv64(t+"\n", h)
	}
	return h
}
