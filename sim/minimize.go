package sim

import (
	"time"
)

// Minimise shrinks the two tapes of a failing run by internal reduction
// (delete blocks, zero values, lower values), keeping a candidate when the same
// violation class and site persist. Because generation, schedule and fault
// plan all read the tapes, this shrinks configs, tuple sets, schedules and
// fault plans together.
func Minimise(env *Env, f PropFunc, r *ReplayFile, budget time.Duration) (*ReplayFile, int) {
	deadline := time.Now().Add(budget)
	tries := 0
	test := func(ct, et []uint32) *Violation {
		tries++
		rc := &RunCtx{Property: r.Property, Mode: r.Mode, Tier: r.Tier, Seed: r.Seed, Run: r.Run,
			Replay: true, CaseTape: ReplayTape(ct), ReplayExec: et, OnlyExec: r.ExecIndex,
			Rec: &RunRecord{Run: r.Run, Seed: r.Seed}}
		if et == nil {
			rc.ReplayExec = []uint32{}
		}
		rc.execSeed = uint64(rc.CaseTape.Choose(1 << 30))
		// every attempt lives in its own network (UUID space), like a fresh process:
		// state that a keto under test keeps per id must not leak between attempts
		env.NewNetwork(Mix(MixStr(Mix(r.Seed, uint64(r.Run)), r.Property+"/"+r.Mode), 4242, uint64(tries)))
		f(env, rc)
		for _, v := range rc.Rec.Violations {
			if v.Class == r.Class && v.Site == r.Site {
				return v
			}
		}
		return nil
	}
	ct := append([]uint32(nil), r.CaseTape...)
	et := append([]uint32(nil), r.ExecTape...)
	best := test(ct, et)
	if best == nil {
		return nil, tries
	}
	ct, et = best.CaseTape, best.ExecTape
	shrink := func(which int) bool {
		improved := false
		get := func() []uint32 {
			if which == 0 {
				return ct
			}
			return et
		}
		try := func(cand []uint32) bool {
			if time.Now().After(deadline) {
				return false
			}
			var v *Violation
			if which == 0 {
				v = test(cand, et)
			} else {
				v = test(ct, cand)
			}
			if v != nil {
				best = v
				ct, et = v.CaseTape, v.ExecTape
				improved = true
				return true
			}
			return false
		}
		// delete blocks
		for _, bs := range []int{16, 8, 4, 2, 1} {
			for i := 0; i+bs <= len(get()); {
				cur := get()
				cand := append(append([]uint32(nil), cur[:i]...), cur[i+bs:]...)
				if !try(cand) {
					i += bs
				}
				if time.Now().After(deadline) {
					return improved
				}
			}
		}
		// zero, then lower values
		for i := 0; i < len(get()); i++ {
			cur := get()
			if cur[i] == 0 {
				continue
			}
			cand := append([]uint32(nil), cur...)
			cand[i] = 0
			if try(cand) {
				continue
			}
			for cur[i] > 1 {
				cand = append([]uint32(nil), get()...)
				if i >= len(cand) {
					break
				}
				cand[i] = cur[i] / 2
				if !try(cand) {
					break
				}
				cur = get()
				if i >= len(cur) {
					break
				}
			}
			if time.Now().After(deadline) {
				return improved
			}
		}
		return improved
	}
	for round := 0; round < 6 && time.Now().Before(deadline); round++ {
		a := shrink(0)
		b := shrink(1)
		if !a && !b {
			break
		}
	}
	out := *r
	out.CaseTape, out.ExecTape = best.CaseTape, best.ExecTape
	out.Witness = best.Witness
	out.Detail = best.Detail
	out.Minimised = true
	return &out, tries
}
