package sim

import (
	"fmt"
)

// Write/read operation generator and conformance step for the system tier
// (ShardStore-style: the op runs through the real API, then the reference model
// R2 is stepped and compared).

type Op struct {
	Kind   string  `json:"kind"` // create patch transact delete-rest delete-grpc list-rest list-grpc
	T      *Tuple  `json:"t,omitempty"`
	Deltas []Delta `json:"deltas,omitempty"`
	Q      *Query  `json:"q,omitempty"`
	Size   int     `json:"size,omitempty"`
}

func (o Op) String() string {
	switch o.Kind {
	case "create":
		return "create " + o.T.String()
	case "patch", "transact":
		s := o.Kind
		for _, d := range o.Deltas {
			a := "-"
			if d.Insert {
				a = "+"
			}
			s += " " + a + d.T.String()
			if d.AlsoSet != nil {
				s += fmt.Sprintf("[and subject_set %s:%s#%s]", d.AlsoSet.NS, d.AlsoSet.Obj, d.AlsoSet.Rel)
			}
		}
		return s
	default:
		return fmt.Sprintf("%s %s size=%d", o.Kind, o.Q, o.Size)
	}
}

type Domain struct {
	NS       []string // known namespaces
	BadNS    []string // unknown namespaces
	Objs     []string
	Rels     []string
	Users    []string
	AllowBad bool // generate invalid arguments (unknown namespace, nil subject)
}

var DefaultDomain = Domain{
	NS: []string{"N0", "N1"}, BadNS: []string{"nope", ""},
	Objs:     []string{"o0", "o1", "o2", ""},
	Rels:     []string{"r0", "r1", ""},
	Users:    []string{"u0", "u1", "o0"},
	AllowBad: true,
}

func pick(t *Tape, xs []string) string { return xs[t.Choose(len(xs))] }

func (d Domain) ns(t *Tape) string {
	if d.AllowBad && t.Bool(1, 12) {
		return pick(t, d.BadNS)
	}
	return pick(t, d.NS)
}

func (d Domain) Subject(t *Tape) Subject {
	if d.AllowBad && t.Bool(1, 25) {
		return Subject{Nil: true}
	}
	if t.Bool(1, 2) {
		return Subject{ID: pick(t, d.Users)}
	}
	return Subject{Set: &SetRef{NS: d.ns(t), Obj: pick(t, d.Objs), Rel: pick(t, d.Rels)}}
}

func (d Domain) Tuple(t *Tape) Tuple {
	return Tuple{NS: d.ns(t), Obj: pick(t, d.Objs), Rel: pick(t, d.Rels), Sub: d.Subject(t)}
}

// Query of a tape-chosen shape (2^4 shapes); values from the domain or from an
// existing tuple.
func (d Domain) Query(t *Tape, existing []Tuple) Query {
	var base Tuple
	if len(existing) > 0 && t.Bool(3, 4) {
		base = existing[t.Choose(len(existing))]
	} else {
		base = d.Tuple(t)
		if base.Sub.Nil {
			base.Sub = Subject{ID: pick(t, d.Users)}
		}
	}
	shape := t.Choose(16)
	var q Query
	if shape&1 != 0 {
		v := base.NS
		q.NS = &v
	}
	if shape&2 != 0 {
		v := base.Obj
		q.Obj = &v
	}
	if shape&4 != 0 {
		v := base.Rel
		q.Rel = &v
	}
	if shape&8 != 0 {
		v := base.Sub
		q.Sub = &v
	}
	return q
}

func (d Domain) known(ns string) bool {
	for _, n := range d.NS {
		if n == ns {
			return true
		}
	}
	return false
}

func (d Domain) ValidTuple(t Tuple) bool {
	if t.Sub.Nil || !d.known(t.NS) {
		return false
	}
	if t.Sub.Set != nil && !d.known(t.Sub.Set.NS) {
		return false
	}
	return true
}

func (d Domain) ValidQuery(q Query) bool {
	if q.NS != nil && !d.known(*q.NS) {
		return false
	}
	if q.Sub != nil && q.Sub.Set != nil && !d.known(q.Sub.Set.NS) {
		return false
	}
	return true
}

func (d Domain) GenOp(t *Tape, existing []Tuple, readOnly bool) Op {
	w := []int{5, 4, 4, 2, 2, 3, 3}
	if readOnly {
		w = []int{0, 0, 0, 0, 0, 1, 1}
	}
	switch t.Weighted(w...) {
	case 0:
		tu := d.Tuple(t)
		if len(existing) > 0 && t.Bool(1, 6) {
			tu = existing[t.Choose(len(existing))] // duplicate
		}
		return Op{Kind: "create", T: &tu}
	case 1, 2:
		k := "patch"
		if t.Bool(1, 2) {
			k = "transact"
		}
		n := t.Range(1, 6)
		var ds []Delta
		for i := 0; i < n; i++ {
			var tu Tuple
			ins := t.Bool(3, 5)
			if len(existing) > 0 && (!ins || t.Bool(1, 6)) && t.Bool(4, 5) {
				tu = existing[t.Choose(len(existing))]
			} else if len(ds) > 0 && t.Bool(1, 5) {
				tu = ds[t.Choose(len(ds))].T // duplicate within the request
			} else {
				tu = d.Tuple(t)
			}
			ds = append(ds, Delta{Insert: ins, T: tu})
		}
		return Op{Kind: k, Deltas: ds}
	case 3:
		q := d.Query(t, existing)
		return Op{Kind: "delete-rest", Q: &q}
	case 4:
		q := d.Query(t, existing)
		return Op{Kind: "delete-grpc", Q: &q}
	case 5:
		q := d.Query(t, existing)
		return Op{Kind: "list-rest", Q: &q, Size: []int{0, 1, 2, 3, 100}[t.Choose(5)]}
	default:
		q := d.Query(t, existing)
		return Op{Kind: "list-grpc", Q: &q, Size: []int{0, 1, 2, 3, 100}[t.Choose(5)]}
	}
}

// Expectation for an op on the model: (valid, effect).
func (d Domain) Expect(o Op, m *Model) (valid bool, after *Model, want []Tuple) {
	after = m.Clone()
	switch o.Kind {
	case "create":
		if !d.ValidTuple(*o.T) {
			return false, m, nil
		}
		after.Insert(*o.T)
		return true, after, nil
	case "patch", "transact":
		var ins, del []Tuple
		for _, x := range o.Deltas {
			if !d.ValidTuple(x.T) {
				return false, m, nil
			}
			if x.Insert {
				ins = append(ins, x.T)
			} else {
				del = append(del, x.T)
			}
		}
		after.Insert(ins...)
		after.Delete(del...)
		return true, after, nil
	case "delete-rest":
		if o.Q.NS == nil || !d.ValidQuery(*o.Q) {
			return false, m, nil
		}
		after.DeleteQuery(*o.Q)
		return true, after, nil
	case "delete-grpc":
		if !d.ValidQuery(*o.Q) {
			return false, m, nil
		}
		after.DeleteQuery(*o.Q)
		return true, after, nil
	case "list-rest", "list-grpc":
		if !d.ValidQuery(*o.Q) {
			return false, m, nil
		}
		return true, m, m.Match(*o.Q)
	}
	panic("bad op")
}

// Do executes the op through the real API. For list ops it follows the page
// tokens to the end.
func (s *Sys) Do(o Op) (Resp, []Tuple) {
	switch o.Kind {
	case "create":
		return s.Create(*o.T), nil
	case "patch":
		return s.Patch(o.Deltas), nil
	case "transact":
		return s.Transact(o.Deltas), nil
	case "delete-rest":
		return s.DeleteREST(*o.Q), nil
	case "delete-grpc":
		return s.DeleteGRPC(*o.Q), nil
	case "list-rest":
		r, ts, _ := s.ListAll(*o.Q, o.Size, false)
		return r, ts
	case "list-grpc":
		r, ts, _ := s.ListAll(*o.Q, o.Size, true)
		return r, ts
	}
	panic("bad op")
}

func (o Op) IsWrite() bool { return o.Kind != "list-rest" && o.Kind != "list-grpc" }
