package sim

import (
	"context"
	"fmt"
	"io"
	"net/http"
	"os"
	"testing"

	"github.com/gofrs/uuid"
	"github.com/ory/x/configx"
	"github.com/ory/x/logrusx"
	"google.golang.org/grpc"
	"google.golang.org/grpc/metadata"

	"database/sql"

	"github.com/ory/keto/internal/driver"
	"github.com/ory/keto/internal/driver/config"
	"github.com/ory/keto/internal/namespace"
	"github.com/ory/keto/internal/relationtuple"
	"github.com/ory/keto/ketoctx"
)

// Multi-tenant environment: ONE real registry whose Contextualizer takes the
// network id from the request context, so the real routers and gRPC servers
// serve several tenants over one database - the way keto is embedded in a
// multi-tenant deployment. The network travels in an HTTP header / gRPC
// metadata key that a middleware / interceptor (registered through keto's own
// ketoctx options) copies into the context.

const netHeader = "x-sim-network"

type netKey struct{}

type simCtxer struct{}

func (simCtxer) Network(ctx context.Context, def uuid.UUID) uuid.UUID {
	if v, ok := ctx.Value(netKey{}).(uuid.UUID); ok {
		return v
	}
	return def
}
func (simCtxer) Config(_ context.Context, c *configx.Provider) *configx.Provider { return c }

func withNet(ctx context.Context, s string) context.Context {
	if u, err := uuid.FromString(s); err == nil {
		return context.WithValue(ctx, netKey{}, u)
	}
	return ctx
}

func NewEnvMT(t testing.TB) *Env {
	installL2()
	installUUIDGen()
	theGen.Reseed(0xC0FFEE, orderRandom)
	n := envCounter.Add(1)
	name := fmt.Sprintf("verifsimmt_%d_%d", os.Getpid(), n)
	kdb, err := sql.Open("sqlite3", fmt.Sprintf("file:%s?_fk=true&cache=shared&mode=memory", name))
	if err != nil {
		t.Fatalf("keeper: %v", err)
	}
	keeper, err := kdb.Conn(context.Background())
	if err != nil {
		t.Fatalf("keeper: %v", err)
	}
	dsn := fmt.Sprintf("sqlite://file:%s?_fk=true&cache=shared&mode=memory", name)
	ctx := configx.ContextWithConfigOptions(context.Background(), configx.WithValues(map[string]any{
		config.KeyDSN:        dsn,
		"log.level":          "panic",
		config.KeyNamespaces: []*namespace.Namespace{{Name: "boot"}},
	}))
	l := logrusx.New("Ory Keto", "sim")
	l.Logrus().SetOutput(io.Discard)
	r, err := driver.NewDefaultRegistry(ctx, nil, false, []ketoctx.Option{
		ketoctx.WithLogger(l),
		ketoctx.WithContextualizer(simCtxer{}),
		ketoctx.WithHTTPMiddlewares(func(rw http.ResponseWriter, r *http.Request, next http.HandlerFunc) {
			if v := r.Header.Get(netHeader); v != "" {
				r = r.WithContext(withNet(r.Context(), v))
			}
			next(rw, r)
		}),
		ketoctx.WithGRPCUnaryInterceptors(func(ctx context.Context, req any, _ *grpc.UnaryServerInfo, h grpc.UnaryHandler) (any, error) {
			if md, ok := metadata.FromIncomingContext(ctx); ok {
				if vs := md.Get(netHeader); len(vs) > 0 {
					ctx = withNet(ctx, vs[0])
				}
			}
			return h(ctx, req)
		}),
	})
	if err != nil {
		t.Fatalf("registry: %v", err)
	}
	reg := r.(*driver.RegistryDefault)
	e := &Env{T: t, Reg: reg, Ctx: context.Background(), dbName: name, Log: &logProbe{}, keeper: keeper}
	lg := reg.Logger().Logrus()
	lg.SetOutput(io.Discard)
	lg.SetFormatter(nullFormatter{})
	e.L1 = &l1{names: &nameTable{m: map[uuid.UUID]string{}}}
	e.Deps = newSimDeps(reg, e.L1)
	_ = reg.Tracer(e.Ctx)
	_ = reg.Writer()
	_ = reg.Mapper()
	_ = reg.ReadOnlyMapper()
	_, _ = reg.Config(e.Ctx).NamespaceManager()
	_, _ = reg.RelationTupleManager().ExistsRelationTuples(e.Ctx, &relationtuple.RelationQuery{})
	return e
}

// AddNetwork registers another tenant on the shared database.
func (e *Env) AddNetwork(id uuid.UUID) {
	_, err := e.keeper.ExecContext(context.Background(), "INSERT OR IGNORE INTO networks (id, created_at, updated_at) VALUES (?, datetime('now'), datetime('now'))", id.String())
	if err != nil {
		e.T.Fatalf("add network: %v", err)
	}
}

// RowsOfNetwork dumps the raw rows of one tenant.
func (e *Env) RowsOfNetwork(id uuid.UUID) (string, int) {
	rows, err := e.keeper.QueryContext(context.Background(), "SELECT shard_id, namespace, object, relation, subject_id, subject_set_namespace, subject_set_object, subject_set_relation FROM keto_relation_tuples WHERE nid = ? ORDER BY shard_id", id.String())
	if err != nil {
		e.T.Fatalf("rows: %v", err)
	}
	defer rows.Close()
	h := fnv64("rows", 0)
	n := 0
	for rows.Next() {
		vals := make([]any, 8)
		ptrs := make([]any, 8)
		for i := range vals {
			ptrs[i] = &vals[i]
		}
		if err := rows.Scan(ptrs...); err != nil {
			e.T.Fatalf("rows: %v", err)
		}
		h = fnv64(fmt.Sprint(vals), h)
		n++
	}
	return fmt.Sprintf("%016x", h), n
}
