package sim

import (
	"context"
	"database/sql"
	"database/sql/driver"
	"errors"
	"fmt"
	"strings"
	"sync"

	sqlite3 "github.com/mattn/go-sqlite3"
)

// L2: the SQL-driver seam. pop opens sqlite through a database/sql driver
// registered under the fixed name "instrumented-sql-driver-sqlite3" and reuses
// it if it is already registered. The harness registers this wrapper around
// go-sqlite3 under that name first, so every SQL statement of a registry -
// migrations included - passes through here, *below* pop, popx, sqlcon and
// keto's persister, whose error mapping and transaction code run for real.
//
// All injected faults are fail-stop: the statement is not executed.

const popSQLiteDriverName = "instrumented-sql-driver-sqlite3"

type StmtKind int

const (
	StmtOther StmtKind = iota
	StmtBegin
	StmtCommit
	StmtRollback
	StmtRead
	StmtWrite
	StmtDDL
)

func (k StmtKind) String() string {
	return [...]string{"other", "begin", "commit", "rollback", "read", "write", "ddl"}[k]
}

type StmtRec struct {
	Seq   int
	Conn  int
	InTx  bool
	Kind  StmtKind
	Text  string
	Table string
	Fault string
}

func (r StmtRec) String() string {
	tx := ""
	if r.InTx {
		tx = " tx"
	}
	f := ""
	if r.Fault != "" {
		f = " FAULT(" + r.Fault + ")"
	}
	return fmt.Sprintf("c%d%s %s %s%s", r.Conn, tx, r.Kind, r.Table, f)
}

type L2Fault int

const (
	L2None L2Fault = iota
	L2IO
	L2BadConn
	L2Busy
	L2Full
	L2Ctx
	L2Crash      // this and every later statement on every connection fails; onCrash is called first
	L2Down       // from this statement on every statement fails with an I/O error (the database is gone) until Heal
	L2ClientGone // the client of the request goes away: onClientGone (cancels the request context) is called, the statement fails with context.Canceled
)

func (f L2Fault) String() string {
	return [...]string{"none", "io", "badconn", "busy", "full", "ctx", "crash", "down", "client-gone"}[f]
}

var (
	errL2IO   = errors.New("sim: injected disk I/O error")
	errL2Busy = errors.New("database is locked")
	errL2Full = sqlite3.Error{Code: sqlite3.ErrFull}
)

type l2Hub struct {
	mu           sync.Mutex
	recording    bool
	log          []StmtRec
	seq          int
	armed        bool
	count        int // statements since Arm
	faultAt      int // 1-based statement index since Arm (0: none)
	fault        L2Fault
	onlyKinds    map[StmtKind]bool
	fired        int
	crashed      bool
	down         bool
	onCrash      func()
	onClientGone func()
	hook         func(ctx context.Context, rec *StmtRec) error // called (without the lock) before a statement executes: tier T parking; a non-nil error fails the statement
	conns        int
}

var theHub = &l2Hub{}

var registerL2Once sync.Once

func installL2() {
	registerL2Once.Do(func() {
		sql.Register(popSQLiteDriverName, &l2Driver{inner: &sqlite3.SQLiteDriver{}, hub: theHub})
	})
}

// Arm starts counting statements; the k-th statement from now (k>=1) fails
// with fault f. k==0: only record.
func (h *l2Hub) Arm(k int, f L2Fault) {
	h.mu.Lock()
	defer h.mu.Unlock()
	h.armed = true
	h.recording = true
	h.log = nil
	h.count = 0
	h.faultAt = k
	h.fault = f
	h.fired = 0
}

func (h *l2Hub) Disarm() (log []StmtRec, fired int) {
	h.mu.Lock()
	defer h.mu.Unlock()
	h.armed = false
	h.recording = false
	h.down = false
	log, fired = h.log, h.fired
	h.log = nil
	h.faultAt = 0
	return
}

func (h *l2Hub) Heal() {
	h.mu.Lock()
	h.down = false
	h.crashed = false
	h.mu.Unlock()
}

func classify(q string) (StmtKind, string) {
	s := strings.TrimSpace(q)
	u := strings.ToUpper(s)
	if len(u) > 200 {
		u = u[:200]
	}
	table := ""
	for _, t := range []string{"KETO_RELATION_TUPLES", "KETO_UUID_MAPPINGS", "NETWORKS", "SCHEMA_MIGRATION"} {
		if strings.Contains(u, t) {
			table = strings.ToLower(t)
			break
		}
	}
	switch {
	case strings.HasPrefix(u, "SELECT"), strings.HasPrefix(u, "WITH"):
		return StmtRead, table
	case strings.HasPrefix(u, "INSERT"), strings.HasPrefix(u, "UPDATE"), strings.HasPrefix(u, "DELETE"), strings.HasPrefix(u, "REPLACE"):
		return StmtWrite, table
	case strings.HasPrefix(u, "CREATE"), strings.HasPrefix(u, "ALTER"), strings.HasPrefix(u, "DROP"):
		return StmtDDL, table
	case strings.HasPrefix(u, "BEGIN"):
		return StmtBegin, table
	case strings.HasPrefix(u, "COMMIT"), strings.HasPrefix(u, "END"):
		return StmtCommit, table
	case strings.HasPrefix(u, "ROLLBACK"):
		return StmtRollback, table
	case strings.HasPrefix(u, "PRAGMA"):
		return StmtOther, "pragma"
	}
	return StmtOther, table
}

// before is called for every statement. It returns the error to inject, or nil.
func (h *l2Hub) before(ctx context.Context, conn *l2Conn, kind StmtKind, text string) error {
	_, table := classify(text)
	h.mu.Lock()
	h.seq++
	rec := StmtRec{Seq: h.seq, Conn: conn.id, InTx: conn.inTx, Kind: kind, Table: table}
	if len(text) > 120 {
		rec.Text = text[:120]
	} else {
		rec.Text = text
	}
	var err error
	if h.crashed {
		err = driver.ErrBadConn
		rec.Fault = "crashed"
	} else if h.down {
		err = errL2IO
		rec.Fault = "down"
	} else if h.armed {
		h.count++
		if h.faultAt > 0 && h.count == h.faultAt {
			rec.Fault = h.fault.String()
			h.fired++
			switch h.fault {
			case L2IO:
				err = errL2IO
			case L2BadConn:
				err = driver.ErrBadConn
			case L2Busy:
				err = errL2Busy
			case L2Full:
				err = errL2Full
			case L2Ctx:
				err = context.Canceled
			case L2Down:
				h.down = true
				err = errL2IO
			case L2Crash:
				h.crashed = true
				if h.onCrash != nil {
					h.onCrash()
				}
				err = driver.ErrBadConn
			}
		}
	}
	if h.recording {
		h.log = append(h.log, rec)
	}
	hook := h.hook
	h.mu.Unlock()
	if err == nil && hook != nil {
		if ctx == nil {
			ctx = context.Background()
		}
		err = hook(ctx, &rec)
	}
	return err
}

type l2Driver struct {
	inner driver.Driver
	hub   *l2Hub
}

func (d *l2Driver) Open(dsn string) (driver.Conn, error) {
	c, err := d.inner.Open(dsn)
	if err != nil {
		return nil, err
	}
	d.hub.mu.Lock()
	d.hub.conns++
	id := d.hub.conns
	d.hub.mu.Unlock()
	return &l2Conn{inner: c.(*sqlite3.SQLiteConn), hub: d.hub, id: id}, nil
}

type l2Conn struct {
	inner *sqlite3.SQLiteConn
	hub   *l2Hub
	id    int
	inTx  bool
}

var (
	_ driver.ConnBeginTx        = (*l2Conn)(nil)
	_ driver.ConnPrepareContext = (*l2Conn)(nil)
	_ driver.ExecerContext      = (*l2Conn)(nil)
	_ driver.QueryerContext     = (*l2Conn)(nil)
	_ driver.Pinger             = (*l2Conn)(nil)
)

func (c *l2Conn) Prepare(q string) (driver.Stmt, error) {
	return c.PrepareContext(context.Background(), q)
}
func (c *l2Conn) Close() error { return c.inner.Close() }
func (c *l2Conn) Begin() (driver.Tx, error) {
	return c.BeginTx(context.Background(), driver.TxOptions{})
}
func (c *l2Conn) Ping(ctx context.Context) error { return c.inner.Ping(ctx) }

func (c *l2Conn) BeginTx(ctx context.Context, opts driver.TxOptions) (driver.Tx, error) {
	if err := c.hub.before(ctx, c, StmtBegin, "BEGIN"); err != nil {
		return nil, err
	}
	tx, err := c.inner.BeginTx(ctx, opts)
	if err != nil {
		return nil, err
	}
	c.inTx = true
	return &l2Tx{c: c, inner: tx}, nil
}

func (c *l2Conn) PrepareContext(ctx context.Context, q string) (driver.Stmt, error) {
	st, err := c.inner.PrepareContext(ctx, q)
	if err != nil {
		return nil, err
	}
	k, _ := classify(q)
	return &l2Stmt{c: c, inner: st.(*sqlite3.SQLiteStmt), text: q, kind: k}, nil
}

func (c *l2Conn) ExecContext(ctx context.Context, q string, args []driver.NamedValue) (driver.Result, error) {
	k, _ := classify(q)
	if err := c.hub.before(ctx, c, k, q); err != nil {
		return nil, err
	}
	return c.inner.ExecContext(ctx, q, args)
}

func (c *l2Conn) QueryContext(ctx context.Context, q string, args []driver.NamedValue) (driver.Rows, error) {
	k, _ := classify(q)
	if err := c.hub.before(ctx, c, k, q); err != nil {
		return nil, err
	}
	return c.inner.QueryContext(ctx, q, args)
}

type l2Tx struct {
	c     *l2Conn
	inner driver.Tx
}

func (t *l2Tx) Commit() error {
	if err := t.c.hub.before(nil, t.c, StmtCommit, "COMMIT"); err != nil {
		// fail-stop: nothing is committed; the inner transaction is rolled back so
		// that the connection is reusable, as a database that refused the COMMIT
		// would leave it
		t.c.inTx = false
		_ = t.inner.Rollback()
		return err
	}
	t.c.inTx = false
	return t.inner.Commit()
}

func (t *l2Tx) Rollback() error {
	err := t.c.hub.before(nil, t.c, StmtRollback, "ROLLBACK")
	t.c.inTx = false
	// a rollback is always carried out on the real connection, whatever the
	// caller is told
	e2 := t.inner.Rollback()
	if err != nil {
		return err
	}
	return e2
}

type l2Stmt struct {
	c     *l2Conn
	inner *sqlite3.SQLiteStmt
	text  string
	kind  StmtKind
}

func (s *l2Stmt) Close() error  { return s.inner.Close() }
func (s *l2Stmt) NumInput() int { return s.inner.NumInput() }
func (s *l2Stmt) Exec(args []driver.Value) (driver.Result, error) {
	if err := s.c.hub.before(nil, s.c, s.kind, s.text); err != nil {
		return nil, err
	}
	return s.inner.Exec(args)
}
func (s *l2Stmt) Query(args []driver.Value) (driver.Rows, error) {
	if err := s.c.hub.before(nil, s.c, s.kind, s.text); err != nil {
		return nil, err
	}
	return s.inner.Query(args)
}
func (s *l2Stmt) ExecContext(ctx context.Context, args []driver.NamedValue) (driver.Result, error) {
	if err := s.c.hub.before(ctx, s.c, s.kind, s.text); err != nil {
		return nil, err
	}
	return s.inner.ExecContext(ctx, args)
}
func (s *l2Stmt) QueryContext(ctx context.Context, args []driver.NamedValue) (driver.Rows, error) {
	if err := s.c.hub.before(ctx, s.c, s.kind, s.text); err != nil {
		return nil, err
	}
	return s.inner.QueryContext(ctx, args)
}
