package sim

import (
	"context"
	"encoding/json"
	"fmt"
	"net/http"
	"net/url"
	"regexp"
	"strings"

	opl "github.com/ory/keto/proto/ory/keto/opl/v1alpha1"
	rts "github.com/ory/keto/proto/ory/keto/relation_tuples/v1alpha2"
)

// C13 – no request can crash a handler; malformed requests are client errors
// (tier S). A hostile client is interleaved with normal traffic.

func init() { Props["C13"] = runC13 }

type hostileReq struct {
	Transport string `json:"transport"`
	Desc      string `json:"desc"`
	Method    string `json:"method,omitempty"`
	Target    string `json:"target,omitempty"`
	Body      string `json:"body,omitempty"`
	router    http.Handler
	grpc      func() error
	Write     bool `json:"write"`
}

func (h hostileReq) String() string {
	b := h.Body
	if len(b) > 200 {
		b = b[:200] + "..."
	}
	if h.Transport == "rest" {
		return fmt.Sprintf("%s %s %s", h.Method, h.Target, b)
	}
	return "grpc " + h.Desc
}

var jsonJunk = []string{
	`null`, `[]`, `{}`, `""`, `0`, `-1`, `1e400`, `true`, `[null]`, `[[]]`, `{"tuples":null}`, `{"tuples":[null]}`, `{"tuples":[{}]}`, `{"tuples":[[]]}`, `{"tuples":{}}`, `{"tuples":"x"}`,
	`{"tuples":[{"namespace":"N0","object":"o","relation":"r","subject_id":"u"},null]}`,
	`{"namespace":null,"object":null,"relation":null,"subject_id":null}`, `{"namespace":1,"object":2}`, `{"namespace":"N0","object":"o","relation":"r","subject_set":null}`,
	`{"namespace":"N0","object":"o","relation":"r","subject_set":{}}`, `{"namespace":"N0","object":"o","relation":"r","subject_set":"x"}`, `{"namespace":"N0","object":"o","relation":"r","subject_id":"u","subject_set":{"namespace":"N0","object":"o","relation":"r"}}`,
	`{"namespace":"N0","object":{"a":1},"relation":[],"subject_id":5}`, `{"namespace":"N0"`, `{`, `[{"action":"insert"}]`, `[{"action":"insert","relation_tuple":null}]`, `[{"action":"explode","relation_tuple":{"namespace":"N0","object":"o","relation":"r","subject_id":"u"}}]`,
	`[{"action":null,"relation_tuple":{}}]`, `[null]`, `[{"action":"delete","relation_tuple":{"namespace":"nope","object":"o","relation":"r","subject_id":"u"}}]`, `[{"relation_tuple":{"namespace":"N0","object":"o","relation":"r","subject_set":{"namespace":"nope","object":"o","relation":""}},"action":"insert"}]`,
	"\x00\x01\x02", `{"namespace":"N0","object":"\ud800","relation":"r","subject_id":"u"}`, strings.Repeat("[", 5000), strings.Repeat(`{"a":`, 2000),
}

var queryJunk = []string{
	"page_size=-1", "page_size=-5", "page_size=0", "page_size=99999999999999999999", "page_size=abc", "page_size=1e3", "page_size=0x10", "page_size=", "page_token=", "page_token=zzz", "page_token=" + strings.Repeat("A", 23), "page_token=" + strings.Repeat("0", 32), "page_token=" + strings.Repeat("0", 33), "page_token=AAAAAAAAAAAAAAAAAAAAAA", "page_token=" + strings.Repeat("A", 4096), "page_token=00000000-0000-0000-0000-000000000000-", "page_token=%7B00000000-0000-0000-0000-000000000000%7D",
	"max-depth=-1", "max-depth=abc", "max-depth=99999999999999999999", "max-depth=", "max-depth=1&max-depth=2", "subject=foo", "subject_id=a&subject_set.namespace=N0", "subject_set.namespace=N0", "subject_set.object=o&subject_set.relation=r",
	"namespace=", "namespace=nope", "namespace=N0&namespace=N1", "unknown=1", "%zz", "a=%", "namespace=N0;object=o", "object=" + strings.Repeat("x", 5000), "relation=%00", "subject_set.namespace=nope&subject_set.object=o&subject_set.relation=r",
}

type restEndpoint struct {
	router string
	method string
	path   string
	write  bool
	body   bool
}

var restEndpoints = []restEndpoint{
	{"read", "GET", "/relation-tuples", false, false},
	{"read", "GET", "/relation-tuples/check", false, false},
	{"read", "GET", "/relation-tuples/check/openapi", false, false},
	{"read", "POST", "/relation-tuples/check", false, true},
	{"read", "POST", "/relation-tuples/check/openapi", false, true},
	{"read", "POST", "/relation-tuples/batch/check", false, true},
	{"read", "GET", "/relation-tuples/expand", false, false},
	{"read", "GET", "/namespaces", false, false},
	{"write", "PUT", "/admin/relation-tuples", true, true},
	{"write", "DELETE", "/admin/relation-tuples", true, false},
	{"write", "PATCH", "/admin/relation-tuples", true, true},
	{"opl", "POST", "/opl/syntax/check", false, true},
}

const oplTemplate = `import { Namespace, Context, SubjectSet } from "@ory/keto-namespace-types"
class User implements Namespace {}
class Group implements Namespace {
  related: {
    members: (User | SubjectSet<Group, "members">)[]
  }
}
class Doc implements Namespace {
  related: {
    owners: User[]
    parents: Doc[]
    viewers: (User | SubjectSet<Group, "members">)[]
  }
  permits = {
    view: (ctx: Context): boolean => this.related.owners.includes(ctx.subject) || this.related.viewers.includes(ctx.subject) || this.related.parents.traverse((p) => p.permits.view(ctx)),
    edit: (ctx: Context): boolean => this.permits.view(ctx) && !this.related.parents.traverse((p) => p.related.owners.includes(ctx.subject)),
  }
}
`

var oplWord = regexp.MustCompile(`[A-Za-z]+|"[^"]*"|[{}()\[\]<>|&!.,:=]`)

// hostileOPL: a well-formed document in which one to three tokens are replaced
// by, or raw bytes are inserted as, things a lexer and an error-message
// formatter have to survive: string literals holding invalid UTF-8, NUL and
// control bytes, unterminated strings and comments, very long tokens, bidi
// and zero-width characters.
func hostileOPL(t *Tape) string {
	doc := oplTemplate
	junk := []string{"\"\xff\xfeNamespace\"", "'\xc3\x28'", "\"\x00\"", "\x00", "\"unterminated", "'unterminated", "/* unterminated", "// comment\xff", "\"" + strings.Repeat("a", 70000) + "\"",
		strings.Repeat("x", 70000), "\u202e", "\u200b", "\xef\xbb\xbf", "\xed\xa0\x80", "`template`", "\"\\\"", "\"\\u12\"", "0x", "1e999", "\r", "\x1b[31m", "\xf8\x88\x80\x80\x80"}
	n := t.Range(1, 3)
	for i := 0; i < n; i++ {
		locs := oplWord.FindAllStringIndex(doc, -1)
		if len(locs) == 0 {
			break
		}
		l := locs[t.Choose(len(locs))]
		j := junk[t.Choose(len(junk))]
		switch t.Choose(3) {
		case 0: // replace the token
			doc = doc[:l[0]] + j + doc[l[1]:]
		case 1: // insert in front of it
			doc = doc[:l[0]] + j + " " + doc[l[0]:]
		default: // raw bytes at a random offset
			o := t.Choose(len(doc) + 1)
			doc = doc[:o] + j + doc[o:]
		}
	}
	return doc
}

// deepBody: pathological nesting for the syntax endpoints - far deeper than any
// documented limit and large enough (up to ~4 MB) that unbounded recursion
// exhausts a goroutine stack, which no recovery can catch.
func deepBody(t *Tape) string {
	unit := []string{"!(", "(", "!", "((!(", "[", "{", "this.related.x.traverse((p) => ", "SubjectSet<A, \"r\">[] | ("}[t.Choose(8)]
	k := []int{2000, 100000, 400000, 2000000}[t.Weighted(3, 3, 2, 2)]
	if len(unit)*k > 4_000_000 {
		k = 4_000_000 / len(unit)
	}
	prefix := []string{"", "class A implements Namespace { permits = { p: (ctx) => ", "class A implements Namespace { related: { r: "}[t.Choose(3)]
	return prefix + strings.Repeat(unit, k)
}

func (s *Sys) genHostileREST(t *Tape, dom Domain, existing []Tuple) hostileReq {
	if t.Bool(1, 40) {
		b := deepBody(t)
		return hostileReq{Transport: "rest", Method: "POST", Target: "/opl/syntax/check", Body: b, router: s.OPLH, Desc: fmt.Sprintf("POST /opl/syntax/check (%d bytes of nesting)", len(b))}
	}
	ep := restEndpoints[t.Choose(len(restEndpoints))]
	h := hostileReq{Transport: "rest", Method: ep.method, Write: ep.write}
	switch ep.router {
	case "read":
		h.router = s.ReadH
	case "write":
		h.router = s.WriteH
	default:
		h.router = s.OPLH
	}
	// a plausible base
	var base Tuple
	if len(existing) > 0 && t.Bool(1, 2) {
		base = existing[t.Choose(len(existing))]
	} else {
		base = dom.Tuple(t)
	}
	q := tupleURL(base)
	if base.Sub.Nil {
		q = url.Values{"namespace": {base.NS}, "object": {base.Obj}, "relation": {base.Rel}}
	}
	query := q.Encode()
	var body []byte
	if ep.body {
		switch ep.path {
		case "/relation-tuples/batch/check":
			body, _ = json.Marshal(map[string]any{"tuples": []any{base.API()}})
		case "/admin/relation-tuples":
			if ep.method == "PATCH" {
				body, _ = json.Marshal([]any{map[string]any{"action": "insert", "relation_tuple": base.API()}})
			} else {
				body, _ = json.Marshal(base.API())
			}
		case "/opl/syntax/check":
			body = []byte("class A implements Namespace {}")
			if t.Bool(1, 2) {
				body = []byte(hostileOPL(t))
			}
		default:
			body, _ = json.Marshal(base.API())
		}
		query = ""
	}
	// mutations
	nm := t.Range(1, 3)
	for i := 0; i < nm; i++ {
		switch t.Choose(8) {
		case 0, 1:
			if ep.body {
				body = []byte(jsonJunk[t.Choose(len(jsonJunk))])
			} else {
				query = queryJunk[t.Choose(len(queryJunk))]
			}
		case 2, 3:
			j := queryJunk[t.Choose(len(queryJunk))]
			if query == "" {
				query = j
			} else {
				query += "&" + j
			}
		case 4:
			// a body where none is expected / none where one is expected
			if ep.body {
				body = nil
			} else {
				body = []byte(jsonJunk[t.Choose(len(jsonJunk))])
			}
		case 5:
			h.Method = []string{"GET", "POST", "PUT", "PATCH", "DELETE", "HEAD", "OPTIONS", "TRACE", "FOO"}[t.Choose(9)]
		case 6:
			if len(body) > 2 {
				body = body[:t.Choose(len(body))]
			}
		default:
			ep.path = []string{"/", "/relation-tuples/", "/relation-tuples/check/", "/admin", "/admin/relation-tuples/x", "//relation-tuples", "/relation-tuples/%2e%2e/admin/relation-tuples", "/health/alive", "/version"}[t.Choose(9)]
		}
	}
	h.Target = ep.path
	if query != "" {
		h.Target += "?" + query
	}
	if body != nil {
		h.Body = string(body)
	}
	h.Desc = h.Method + " " + h.Target
	return h
}

func (s *Sys) genHostileGRPC(t *Tape, dom Domain, existing []Tuple) hostileReq {
	ctx := s.ctx()
	h := hostileReq{Transport: "grpc"}
	var base Tuple
	if len(existing) > 0 && t.Bool(1, 2) {
		base = existing[t.Choose(len(existing))]
	} else {
		base = dom.Tuple(t)
	}
	// one message in six carries long names made of multi-byte characters, in a
	// namespace the server does not know or in the object / subject: whatever the
	// server quotes or truncates for its error answer has to stay valid text
	if t.Bool(1, 6) {
		long := []string{strings.Repeat("ä", 250), "a" + strings.Repeat("文", 200), strings.Repeat("😀", 70) + "x", "ab" + strings.Repeat("é", 300), strings.Repeat("x", 125) + strings.Repeat("ß", 10)}[t.Choose(5)]
		switch t.Choose(3) {
		case 0:
			base.NS = long
		case 1:
			base.Obj = long
		default:
			base.Sub = Subject{Set: &SetRef{NS: long, Obj: long, Rel: long}}
		}
	}
	pt := base.Proto()
	// absent optional sub-messages
	switch t.Choose(5) {
	case 0:
		pt.Subject = nil
	case 1:
		pt.Subject = &rts.Subject{}
	case 2:
		pt.Subject = &rts.Subject{Ref: &rts.Subject_Set{}}
	}
	depth := []int32{0, -1, 1, 1 << 30, -(1 << 31)}[t.Choose(5)]
	size := []int32{0, -1, -100, 1, 1 << 30}[t.Choose(5)]
	tok := []string{"", "x", "00000000-0000-0000-0000-000000000000", "0000000000000000000000000000000000", strings.Repeat("A", 23), strings.Repeat("Az09_-", 20), strings.Repeat("A", 4096)}[t.Choose(7)]
	switch k := t.Choose(14); k {
	case 0:
		h.Desc = fmt.Sprintf("Check{Tuple:%v MaxDepth:%d}", pt, depth)
		h.grpc = func() error { _, err := s.Check.Check(ctx, &rts.CheckRequest{Tuple: pt, MaxDepth: depth}); return err }
	case 1:
		h.Desc = "Check{} (no tuple, deprecated fields empty)"
		h.grpc = func() error { _, err := s.Check.Check(ctx, &rts.CheckRequest{MaxDepth: depth}); return err }
	case 2:
		h.Desc = fmt.Sprintf("Check{deprecated fields, Subject:%v}", pt.Subject)
		h.grpc = func() error {
			_, err := s.Check.Check(ctx, &rts.CheckRequest{Namespace: pt.Namespace, Object: pt.Object, Relation: pt.Relation, Subject: pt.Subject}) //nolint
			return err
		}
	case 3:
		n := t.Range(0, 3)
		req := &rts.BatchCheckRequest{MaxDepth: depth}
		for i := 0; i < n; i++ {
			req.Tuples = append(req.Tuples, base.Proto())
		}
		req.Tuples = append(req.Tuples, pt)
		if t.Bool(1, 3) {
			req.Tuples = append(req.Tuples, &rts.RelationTuple{})
		}
		h.Desc = fmt.Sprintf("BatchCheck{%d tuples, last %v}", len(req.Tuples), pt)
		h.grpc = func() error { _, err := s.Check.BatchCheck(ctx, req); return err }
	case 4:
		h.Desc = fmt.Sprintf("Expand{Subject:%v MaxDepth:%d}", pt.Subject, depth)
		h.grpc = func() error {
			_, err := s.Expand.Expand(ctx, &rts.ExpandRequest{Subject: pt.Subject, MaxDepth: depth})
			return err
		}
	case 5:
		h.Desc = "Expand{}"
		h.grpc = func() error { _, err := s.Expand.Expand(ctx, &rts.ExpandRequest{}); return err }
	case 6:
		h.Desc = fmt.Sprintf("List{} size=%d token=%q", size, tok)
		h.grpc = func() error {
			_, err := s.ReadC.ListRelationTuples(ctx, &rts.ListRelationTuplesRequest{PageSize: size, PageToken: tok})
			return err
		}
	case 7:
		q := &rts.RelationQuery{Namespace: &pt.Namespace, Subject: pt.Subject}
		h.Desc = fmt.Sprintf("List{RelationQuery:%v size=%d token=%q}", q, size, tok)
		h.grpc = func() error {
			_, err := s.ReadC.ListRelationTuples(ctx, &rts.ListRelationTuplesRequest{RelationQuery: q, PageSize: size, PageToken: tok})
			return err
		}
	case 8:
		q := &rts.ListRelationTuplesRequest_Query{Namespace: pt.Namespace, Object: pt.Object, Subject: pt.Subject} //nolint
		h.Desc = fmt.Sprintf("List{deprecated Query:%v size=%d}", q, size)
		h.grpc = func() error {
			_, err := s.ReadC.ListRelationTuples(ctx, &rts.ListRelationTuplesRequest{Query: q, PageSize: size}) //nolint
			return err
		}
	case 9:
		h.Write = true
		req := &rts.TransactRelationTuplesRequest{}
		switch t.Choose(4) {
		case 0:
			req.RelationTupleDeltas = []*rts.RelationTupleDelta{{Action: rts.RelationTupleDelta_ACTION_INSERT}}
		case 1:
			req.RelationTupleDeltas = []*rts.RelationTupleDelta{{Action: rts.RelationTupleDelta_ACTION_INSERT, RelationTuple: pt}}
		case 2:
			req.RelationTupleDeltas = []*rts.RelationTupleDelta{{Action: rts.RelationTupleDelta_Action(77), RelationTuple: base.Proto()}, {Action: rts.RelationTupleDelta_ACTION_UNSPECIFIED, RelationTuple: pt}}
		default:
			req.RelationTupleDeltas = []*rts.RelationTupleDelta{{Action: rts.RelationTupleDelta_ACTION_DELETE, RelationTuple: pt}, {}}
		}
		h.Desc = fmt.Sprintf("Transact{%v}", req.RelationTupleDeltas)
		h.grpc = func() error { _, err := s.WriteC.TransactRelationTuples(ctx, req); return err }
	case 10:
		h.Write = true
		h.Desc = "Delete{} (no query at all)"
		h.grpc = func() error {
			_, err := s.WriteC.DeleteRelationTuples(ctx, &rts.DeleteRelationTuplesRequest{})
			return err
		}
	case 11:
		h.Write = true
		q := &rts.RelationQuery{Namespace: &pt.Namespace, Object: &pt.Object, Relation: &pt.Relation, Subject: pt.Subject}
		h.Desc = fmt.Sprintf("Delete{RelationQuery:%v}", q)
		h.grpc = func() error {
			_, err := s.WriteC.DeleteRelationTuples(ctx, &rts.DeleteRelationTuplesRequest{RelationQuery: q})
			return err
		}
	case 12:
		if t.Bool(1, 3) {
			c := deepBody(t)
			h.Desc = fmt.Sprintf("Syntax.Check{%d bytes of nesting}", len(c))
			h.grpc = func() error { _, err := s.Syntax.Check(ctx, &opl.CheckRequest{Content: []byte(c)}); return err }
			break
		}
		if t.Bool(1, 2) {
			c := hostileOPL(t)
			h.Desc = fmt.Sprintf("Syntax.Check{%d bytes, hostile tokens: %q}", len(c), c[:min(len(c), 120)])
			h.grpc = func() error { _, err := s.Syntax.Check(ctx, &opl.CheckRequest{Content: []byte(c)}); return err }
			break
		}
		c := []string{"", "class", "\xff\xfe", strings.Repeat("(", 3000), "class A implements Namespace { permits = { p: (ctx) => " + strings.Repeat("!", 500) + "this.related.x.includes(ctx.subject) } }"}[t.Choose(5)]
		h.Desc = fmt.Sprintf("Syntax.Check{%d bytes}", len(c))
		h.grpc = func() error { _, err := s.Syntax.Check(ctx, &opl.CheckRequest{Content: []byte(c)}); return err }
	default:
		h.Desc = "ListNamespaces{}"
		h.grpc = func() error { _, err := s.NSC.ListNamespaces(ctx, &rts.ListNamespacesRequest{}); return err }
	}
	return h
}

func (s *Sys) doHostile(h hostileReq) Resp {
	if h.Transport == "rest" {
		var body []byte
		if h.Body != "" {
			body = []byte(h.Body)
		}
		return s.RESTRaw(h.router, h.Method, h.Target, body)
	}
	return grpcResp(h.grpc())
}

func runC13(env *Env, rc *RunCtx) {
	t := rc.CaseTape
	sys := env.SysTier()
	env.Wipe()
	env.UseConfigCached(plainCfg, Limits{Depth: 5, Width: 100, BatchMax: 10, BatchPar: 5})
	theGen.Reseed(uint64(t.Choose(1<<30)), t.Choose(3))
	dom := DefaultDomain
	faults := rc.Mode == "faults"
	m := &Model{}
	var hist []string
	nOps := t.Range(6, 30)
	h := fnv64("c13", 0)
	nHostile := 0
	witness := func(extra map[string]any) map[string]any {
		hh := hist
		if len(hh) > 25 {
			hh = hh[len(hh)-25:]
		}
		w := map[string]any{"history_tail": hh}
		for k, v := range extra {
			w[k] = v
		}
		return w
	}
	for i := 0; i < nOps; i++ {
		if t.Bool(1, 3) {
			// normal traffic keeps the store moving
			op := dom.GenOp(t, m.T, false)
			valid, after, _ := dom.Expect(op, m)
			r, _ := sys.Do(op)
			hist = append(hist, fmt.Sprintf("normal: %s -> %s", op, r))
			if r.OK() && valid && op.IsWrite() {
				m = after
			}
			continue
		}
		var hr hostileReq
		if t.Bool(1, 2) {
			hr = sys.genHostileREST(t, dom, m.T)
		} else {
			hr = sys.genHostileGRPC(t, dom, m.T)
		}
		k, kind := 0, L2None
		if faults && t.Bool(1, 3) {
			k, kind = t.Range(1, 4), l2Kinds[t.Choose(len(l2Kinds))]
		}
		doer := sys
		var gone context.CancelFunc
		if faults && hr.Transport == "rest" && kind == L2None && t.Bool(1, 4) {
			// the client goes away in the middle of the request: its context is
			// cancelled when the request issues its k-th SQL statement
			k, kind = t.Range(1, 4), L2ClientGone
			cctx, cancel := context.WithCancel(env.Ctx)
			doer = sys.With(cctx)
			theHub.mu.Lock()
			theHub.onClientGone = cancel
			theHub.mu.Unlock()
			gone = cancel
		}
		theHub.Arm(k, kind)
		resp := doer.doHostile(hr)
		_, fired := theHub.Disarm()
		if gone != nil {
			gone()
		}
		nHostile++
		rc.Rec.Execs++
		entry := fmt.Sprintf("hostile: %s -> %s", hr, resp)
		if fired > 0 {
			entry += fmt.Sprintf(" [%s fault at statement %d]", kind, k)
			rc.Count("fault_"+kind.String(), 1)
		}
		hist = append(hist, entry)
		h = fnv64(entry, h)
		rc.Count("hostile_"+hr.Transport, 1)
		site := hr.Transport + ":" + hostileSite(hr)
		if resp.Panic != "" {
			rc.Violate("panic", site, fmt.Sprintf("a panic escaped the REST handler chain: %s (request: %s)", resp.Panic, hr), witness(map[string]any{"request": hr}), -1, nil)
			return
		}
		if resp.Status == -1 {
			continue // the request could not even be constructed by net/http
		}
		if resp.ServerError() && fired == 0 {
			rc.Violate("server-error", site, fmt.Sprintf("answered %s without any storage failure (request: %s)", resp, hr), witness(map[string]any{"request": hr}), -1, nil)
			return
		}
		if resp.ClientError() {
			rc.Count("client_errors", 1)
		} else if resp.OK() {
			rc.Count("accepted", 1)
		}
		// state untouched unless the request was accepted
		_, all, _ := sys.ListAll(Query{}, 0, true)
		if !resp.OK() {
			if d := bagDiff(all, m.T); d != "" {
				rc.Violate("rejected-request-changed-state", site, fmt.Sprintf("%s was answered %s but the stored state changed: %s", hr, resp, d), witness(map[string]any{"request": hr}), -1, nil)
				return
			}
		} else if hr.Write {
			m = &Model{T: all} // an accepted (still valid) write: follow the server
			rc.Count("accepted_writes", 1)
		} else if d := bagDiff(all, m.T); d != "" {
			rc.Violate("read-changed-state", site, fmt.Sprintf("read request %s changed the stored state: %s", hr, d), witness(map[string]any{"request": hr}), -1, nil)
			return
		}
	}
	rc.Rec.CaseHash = fmt.Sprintf("%016x", h)
	rc.Rec.NonTrivial = nHostile >= 3
	rc.Note(fmt.Sprintf("%016x", h))
	if rc.WantSample {
		rc.Rec.Sample = witness(nil)
	}
}

func hostileSite(h hostileReq) string {
	if h.Transport == "grpc" {
		return h.Desc[:indexOrLen(h.Desc, '{')]
	}
	p := h.Target
	if i := strings.IndexByte(p, '?'); i >= 0 {
		p = p[:i]
	}
	return h.Method + " " + p
}
